//go:build verif

package dataset

// VerifCompact runs the deduplicating compaction synchronously with the given flush threshold
// (0 = the strategy's own default), exactly as CompactAsync's goroutine does.
func (c *CompactionWorker) VerifCompact(datasetID string, flushAfter int) error {
	s := DeduplicationStrategy()
	s.(*deduplicationStrategy).flushAfter = flushAfter
	return c.compact(datasetID, s)
}
