//go:build verif

package web

import "github.com/labstack/echo/v4"

// VerifEcho exposes the router so that the simulator can serve requests without a socket.
func (ws *WebService) VerifEcho() *echo.Echo { return ws.echo }
