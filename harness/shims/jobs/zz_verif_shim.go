//go:build verif

package jobs

import (
	"reflect"
	"sort"
	"sync"
)

// VerifTaskName names the goroutine of a run for the simulator's scheduler: job id, what
// started it and the run type.
func (j *job) VerifTaskName() string {
	kind := "manual"
	if j.isEvent {
		kind = "event"
	} else if j.schedule != "" {
		kind = "cron"
	}
	t := "incr"
	if j.pipeline != nil && j.pipeline.isFullSync() {
		t = "full"
	}
	return j.id + "/" + kind + "/" + t
}

// VerifJobInfo describes the job behind a hook subject.
func VerifJobInfo(x any) (id string, full, event, ok bool) {
	j, ok := x.(*job)
	if !ok || j == nil {
		return "", false, false, false
	}
	return j.id, j.pipeline != nil && j.pipeline.isFullSync(), j.isEvent, true
}

// VerifMutex lets the simulator check that a lock its model believes held is really held.
func (r *raffle) VerifMutex(kind string) *sync.Mutex {
	if kind == "raffle.mu" {
		return &r.runningMu
	}
	return nil
}

// VerifTickets reports the free run slots and the ids holding one.
func (runner *Runner) VerifTickets() (full, incr int, running []string) {
	r := runner.raffle
	r.runningMu.Lock()
	defer r.runningMu.Unlock()
	for id := range r.runningJobs {
		running = append(running, id)
	}
	sort.Strings(running)
	return r.ticketsFull, r.ticketsIncr, running
}

// VerifRunningIsCopy tells whether the listing of running jobs works on a copy: the live map changes whenever
// a run starts or ends, and iterating it outside the raffle lock ends the process.
func (runner *Runner) VerifRunningIsCopy() bool {
	m := runner.raffle.getRunningJobs()
	return reflect.ValueOf(m).Pointer() != reflect.ValueOf(runner.raffle.runningJobs).Pointer()
}
