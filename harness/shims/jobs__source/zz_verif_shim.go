//go:build verif

package source

import "net/http"

// VerifSetHTTPClient replaces the shared client of the HTTP sources (simulated transport).
func VerifSetHTTPClient(c *http.Client) { globalHttpClient = c }
