//go:build verif

package server

import (
	"encoding/binary"
	"encoding/json"
	"sync"

	"github.com/dgraph-io/badger/v4"

	"github.com/mimiro-io/datahub/internal/conf"
)

// Exported accessors for the simulation harness (overlaid at build time, never in /repo).

func (s *Store) VerifDB() *badger.DB                     { return s.database }
func (s *Store) VerifDeletedDatasets() map[uint32]bool   { return s.deletedDatasets }
func (s *Store) VerifNextDatasetID() uint32              { return s.nextDatasetID }
func (s *Store) VerifURIForID(id uint64) (string, error) { return s.getURIForID(id) }
func (s *Store) VerifCommitIDTxn() error                 { return s.commitIDTxn() }

func (s *Store) VerifIDForURI(curie string) (uint64, bool) {
	txn := s.database.NewTransaction(false)
	defer txn.Discard()
	id, ok, err := s.getIDForURI(txn, curie)
	if err != nil {
		return 0, false
	}
	return id, ok
}

func (s *Store) VerifDataset(name string) *Dataset {
	d, ok := s.datasets.Load(name)
	if !ok {
		return nil
	}
	return d.(*Dataset)
}

func (s *Store) VerifDatasetNames() []string {
	var names []string
	s.datasets.Range(func(k, _ interface{}) bool {
		names = append(names, k.(string))
		return true
	})
	return names
}

func (ds *Dataset) VerifFullSyncState() (started bool, id string, seen int, hasLease bool) {
	return ds.fullSyncStarted, ds.fullSyncID, len(ds.fullSyncSeen), ds.fullSyncLease != nil
}

// VerifChangeKeys returns (seq, rid) of every change-log key of the dataset in key order.
func (ds *Dataset) VerifChangeKeys() (seqs []uint64, rids []uint64) {
	_ = ds.store.database.View(func(txn *badger.Txn) error {
		prefix := make([]byte, 6)
		binary.BigEndian.PutUint16(prefix, DatasetEntityChangeLog)
		binary.BigEndian.PutUint32(prefix[2:], ds.InternalID)
		opts := badger.DefaultIteratorOptions
		opts.PrefetchValues = false
		opts.Prefix = prefix
		it := txn.NewIterator(opts)
		defer it.Close()
		for it.Seek(prefix); it.ValidForPrefix(prefix); it.Next() {
			k := it.Item().Key()
			seqs = append(seqs, binary.BigEndian.Uint64(k[6:14]))
			rids = append(rids, binary.BigEndian.Uint64(k[14:22]))
		}
		return nil
	})
	return
}

// VerifInjectDuplicate stores a new version of an entity that is identical (properties,
// references, deleted flag) to its current latest version, with version, change-log, latest and
// reference-index keys written the way datahub versions without write-time deduplication did.
// It returns false if the entity has no version in the dataset.
func (ds *Dataset) VerifInjectDuplicate(curie string, txnTime int64) (bool, error) {
	s := ds.store
	rid, ok := s.VerifIDForURI(curie)
	if !ok {
		return false, nil
	}
	latestKey := make([]byte, 14)
	binary.BigEndian.PutUint16(latestKey, DatasetLatestEntities)
	binary.BigEndian.PutUint32(latestKey[2:], ds.InternalID)
	binary.BigEndian.PutUint64(latestKey[6:], rid)
	var cur []byte
	err := s.database.View(func(txn *badger.Txn) error {
		it, err := txn.Get(latestKey)
		if err != nil {
			return err
		}
		vk, err := it.ValueCopy(nil)
		if err != nil {
			return err
		}
		ei, err := txn.Get(vk)
		if err != nil {
			return err
		}
		cur, err = ei.ValueCopy(nil)
		return err
	})
	if err == badger.ErrKeyNotFound {
		return false, nil
	}
	if err != nil {
		return false, err
	}
	e := &Entity{}
	if err := json.Unmarshal(cur, e); err != nil {
		return false, err
	}
	e.Recorded = uint64(txnTime)
	jsonData, _ := json.Marshal(e)
	seqKey := make([]byte, 6)
	binary.BigEndian.PutUint16(seqKey, SysDatasetsSequences)
	binary.BigEndian.PutUint32(seqKey[2:], ds.InternalID)
	seq, err := s.database.GetSequence(seqKey, 1000)
	if err != nil {
		return false, err
	}
	defer seq.Release()
	next, err := seq.Next()
	if err != nil {
		return false, err
	}
	ds.WriteLock.Lock()
	defer ds.WriteLock.Unlock()
	idCache := map[string]uint64{}
	err = s.database.Update(func(txn *badger.Txn) error {
		vkey := make([]byte, 24)
		binary.BigEndian.PutUint16(vkey, EntityIDToJSONIndexID)
		binary.BigEndian.PutUint64(vkey[2:], rid)
		binary.BigEndian.PutUint32(vkey[10:], ds.InternalID)
		binary.BigEndian.PutUint64(vkey[14:], uint64(txnTime))
		if err := txn.Set(vkey, jsonData); err != nil {
			return err
		}
		ckey := make([]byte, 22)
		binary.BigEndian.PutUint16(ckey, DatasetEntityChangeLog)
		binary.BigEndian.PutUint32(ckey[2:], ds.InternalID)
		binary.BigEndian.PutUint64(ckey[6:], next)
		binary.BigEndian.PutUint64(ckey[14:], rid)
		if err := txn.Set(ckey, vkey); err != nil {
			return err
		}
		if err := txn.Set(latestKey, vkey); err != nil {
			return err
		}
		for k, v := range e.References {
			var refs []string
			switch t := v.(type) {
			case string:
				refs = []string{t}
			case []interface{}:
				for _, x := range t {
					if sx, ok := x.(string); ok {
						refs = append(refs, sx)
					}
				}
			}
			for _, ref := range refs {
				pid, _, err := s.assertIDForURI(k, idCache)
				if err != nil {
					return err
				}
				oid, _, err := s.assertIDForURI(ref, idCache)
				if err != nil {
					return err
				}
				del := uint16(0)
				if e.IsDeleted {
					del = 1
				}
				out := make([]byte, 40)
				binary.BigEndian.PutUint16(out, OutgoingRefIndex)
				binary.BigEndian.PutUint64(out[2:], rid)
				binary.BigEndian.PutUint64(out[10:], uint64(txnTime))
				binary.BigEndian.PutUint64(out[18:], pid)
				binary.BigEndian.PutUint64(out[26:], oid)
				binary.BigEndian.PutUint16(out[34:], del)
				binary.BigEndian.PutUint32(out[36:], ds.InternalID)
				in := make([]byte, 40)
				binary.BigEndian.PutUint16(in, IncomingRefIndex)
				binary.BigEndian.PutUint64(in[2:], oid)
				binary.BigEndian.PutUint64(in[10:], rid)
				binary.BigEndian.PutUint64(in[18:], uint64(txnTime))
				binary.BigEndian.PutUint64(in[26:], pid)
				binary.BigEndian.PutUint16(in[34:], del)
				binary.BigEndian.PutUint32(in[36:], ds.InternalID)
				if err := txn.Set(out, []byte("")); err != nil {
					return err
				}
				if err := txn.Set(in, []byte("")); err != nil {
					return err
				}
			}
		}
		return nil
	})
	if err != nil {
		return false, err
	}
	return true, s.commitIDTxn()
}

// VerifMutex lets the simulator check that a lock its model believes held is really held.
func (ds *Dataset) VerifMutex(kind string) *sync.Mutex {
	if kind == "dataset.write" {
		return &ds.WriteLock
	}
	return nil
}

func (dsm *DsManager) VerifMutex(kind string) *sync.Mutex {
	if kind == "dsm.lock" {
		return &dsm.lock
	}
	return nil
}

func (namespaceManager *NamespaceManager) VerifMutex(kind string) *sync.Mutex {
	if kind == "ns.lock" {
		return &namespaceManager.lock
	}
	return nil
}

// VerifNewBackupManager builds a BackupManager exactly as NewBackupManager does (including the
// reload of the backup cursor) but without registering it with the global cron scheduler.
func VerifNewBackupManager(store *Store, env *conf.Config) (*BackupManager, error) {
	backup := &BackupManager{}
	backup.backupLocation = env.BackupLocation
	backup.schedule = env.BackupSchedule
	if env.BackupSourceLocation == "" {
		backup.backupSourceLocation = env.StoreLocation
	} else {
		backup.backupSourceLocation = env.BackupSourceLocation
	}
	backup.useRsync = env.BackupRsync
	backup.store = store
	backup.logger = env.Logger.Named("backup")
	lastID, err := backup.LoadLastID()
	if err != nil {
		return nil, err
	}
	backup.lastID = lastID
	return backup, nil
}

func (backupManager *BackupManager) VerifLastID() uint64 { return backupManager.lastID }

func (s *Store) VerifMutex(kind string) *sync.Mutex {
	if m, ok := s.idmux.(*sync.Mutex); ok && kind == "store.idmux" {
		return m
	}
	return nil
}
