//go:build verif

package server

import (
	"encoding/binary"

	"github.com/dgraph-io/badger/v4"
)

// Exported accessors for the simulation harness (overlaid at build time, never in /repo).

func (s *Store) VerifDB() *badger.DB                     { return s.database }
func (s *Store) VerifDeletedDatasets() map[uint32]bool   { return s.deletedDatasets }
func (s *Store) VerifNextDatasetID() uint32              { return s.nextDatasetID }
func (s *Store) VerifURIForID(id uint64) (string, error) { return s.getURIForID(id) }
func (s *Store) VerifCommitIDTxn() error                 { return s.commitIDTxn() }

func (s *Store) VerifIDForURI(curie string) (uint64, bool) {
	txn := s.database.NewTransaction(false)
	defer txn.Discard()
	id, ok, err := s.getIDForURI(txn, curie)
	if err != nil {
		return 0, false
	}
	return id, ok
}

func (s *Store) VerifDataset(name string) *Dataset {
	d, ok := s.datasets.Load(name)
	if !ok {
		return nil
	}
	return d.(*Dataset)
}

func (s *Store) VerifDatasetNames() []string {
	var names []string
	s.datasets.Range(func(k, _ interface{}) bool {
		names = append(names, k.(string))
		return true
	})
	return names
}

func (ds *Dataset) VerifFullSyncState() (started bool, id string, seen int, hasLease bool) {
	return ds.fullSyncStarted, ds.fullSyncID, len(ds.fullSyncSeen), ds.fullSyncLease != nil
}

// VerifChangeKeys returns (seq, rid) of every change-log key of the dataset in key order.
func (ds *Dataset) VerifChangeKeys() (seqs []uint64, rids []uint64) {
	_ = ds.store.database.View(func(txn *badger.Txn) error {
		prefix := make([]byte, 6)
		binary.BigEndian.PutUint16(prefix, DatasetEntityChangeLog)
		binary.BigEndian.PutUint32(prefix[2:], ds.InternalID)
		opts := badger.DefaultIteratorOptions
		opts.PrefetchValues = false
		opts.Prefix = prefix
		it := txn.NewIterator(opts)
		defer it.Close()
		for it.Seek(prefix); it.ValidForPrefix(prefix); it.Next() {
			k := it.Item().Key()
			seqs = append(seqs, binary.BigEndian.Uint64(k[6:14]))
			rids = append(rids, binary.BigEndian.Uint64(k[14:22]))
		}
		return nil
	})
	return
}
