//go:build verif

package security

import "sync"

// VerifMutex lets the simulator check that a lock its model believes held is really held.
func (serviceCore *ServiceCore) VerifMutex(kind string) *sync.Mutex {
	if kind == "security.persist" {
		return &serviceCore.persistLock
	}
	return nil
}
