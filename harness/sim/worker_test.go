package verifsim

import (
	"math/rand"
	"bufio"
	"encoding/json"
	"fmt"
	"os"
	"runtime/debug"
	"strings"
	"syscall"
	"testing"
	"testing/synctest"
)

// Job is one unit of work for a worker process.
type Job struct {
	ID       int       `json:"id"`
	Profile  string    `json:"profile,omitempty"`
	Seed     uint64    `json:"seed,omitempty"`
	Tier     string    `json:"tier,omitempty"`
	Scenario *Scenario `json:"scenario,omitempty"`
	Dump     bool      `json:"dump,omitempty"` // include the generated scenario in the verdict
	GenOnly  bool      `json:"genonly,omitempty"`
	Known    []string  `json:"known,omitempty"` // "oracle|signature" patterns of open known findings
}

var out = bufio.NewWriter(os.Stdout)

func emit(prefix string, v any) {
	b, _ := json.Marshal(v)
	fmt.Fprintf(out, "%s %s\n", prefix, b)
	out.Flush()
}

func runJob(t *testing.T, job *Job) (vd *Verdict) {
	sc := job.Scenario
	if sc == nil {
		var err error
		sc, err = Generate(job.Profile, job.Seed, job.Tier)
		if err != nil {
			return &Verdict{Job: job.ID, Verdict: "error", Message: err.Error(), Seed: job.Seed}
		}
	}
	if job.GenOnly {
		return &Verdict{Job: job.ID, Verdict: "generated", Seed: sc.Seed, Scenario: sc, Profile: sc.Profile, Property: sc.Property}
	}
	func() {
		defer func() {
			if r := recover(); r != nil {
				msg := fmt.Sprint(r)
				if vd == nil {
					vd = &Verdict{Verdict: "error", Message: "panic outside scenario: " + msg + "\n" + string(debug.Stack()), Seed: sc.Seed}
				} else if !strings.Contains(msg, "deadlock: main bubble goroutine has exited") {
					vd.Message += " | bubble panic: " + msg
				}
			}
		}()
		synctest.Test(t, func(t *testing.T) {
			defer func() {
				if r := recover(); r != nil {
					vd = &Verdict{Verdict: "violation", Property: sc.Property, Profile: sc.Profile, Oracle: "process-death",
						Signature: "panic:" + panicClass(fmt.Sprint(r), string(debug.Stack())), Message: fmt.Sprintf("panic: %v\n%s", r, debug.Stack()), Seed: sc.Seed, Nontrivial: true}
				}
			}()
			ResetHooks(sc)
			// heimdall's retry jitter draws from math/rand's global source, which its init() seeds from the wall clock
			rand.Seed(int64(sc.Seed)) //nolint:staticcheck
			SetKnown(job.Known)
			vd = Execute(sc)
		})
	}()
	vd.Job = job.ID
	vd.Profile = sc.Profile
	if vd.Property == "" {
		vd.Property = sc.Property
	}
	if vd.Verdict != "ok" || job.Dump {
		vd.Scenario = sc
	}
	return vd
}

// panicClass names the top datahub frame of a panic for signatures.
func panicClass(msg, stack string) string {
	top := ""
	for _, l := range strings.Split(stack, "\n") {
		if strings.Contains(l, "github.com/mimiro-io/datahub/internal/") && !strings.Contains(l, "/verifsim") && !strings.Contains(l, "/verifhook") {
			l = strings.TrimSpace(l)
			if i := strings.Index(l, "("); i > 0 {
				l = l[:i]
			}
			top = strings.TrimPrefix(l, "github.com/mimiro-io/datahub/internal/")
			break
		}
	}
	if len(msg) > 60 {
		msg = msg[:60]
	}
	return top + ":" + msg
}

func TestWorker(t *testing.T) {
	path := os.Getenv("VERIF_JOBS")
	if path == "" {
		t.Skip("VERIF_JOBS not set")
	}
	fh, err := os.Open(path)
	if err != nil {
		t.Fatal(err)
	}
	sc := bufio.NewScanner(fh)
	sc.Buffer(make([]byte, 1<<20), 1<<28)
	var jobs []*Job
	for sc.Scan() {
		line := strings.TrimSpace(sc.Text())
		if line == "" {
			continue
		}
		j := &Job{}
		if err := json.Unmarshal([]byte(line), j); err != nil {
			t.Fatalf("bad job line: %v", err)
		}
		jobs = append(jobs, j)
	}
	fh.Close()
	for _, j := range jobs {
		emit("START", map[string]any{"job": j.ID})
		vd := runJob(t, j)
		emit("VERDICT", vd)
	}
	emit("DONE", map[string]any{"jobs": len(jobs)})
	_ = os.RemoveAll(ScratchRoot())
	syscall.Exit(0)
}

// TestFixture generates the RSA key fixture used by web-level scenarios (called by bin/setup.sh).
func TestFixture(t *testing.T) {
	if os.Getenv("VERIF_MAKE_FIXTURES") == "" {
		t.Skip("VERIF_MAKE_FIXTURES not set")
	}
	if err := EnsureFixtures(); err != nil {
		t.Fatal(err)
	}
}
