package verifsim

import (
	"encoding/base64"
	"crypto/rsa"
	"encoding/json"
	"fmt"
	"net/url"
	"os"
	"sort"
	"strings"
	"time"

	"github.com/golang-jwt/jwt/v4"

	"github.com/mimiro-io/datahub/internal/security"
)

// C16: no request is served beyond what the caller's token and ACL grant.

type aclEntry struct {
	Resource string
	Action   string
	Deny     bool
}

type SecRun struct {
	Sc      *Scenario
	H       *Hub
	Stats   map[string]int64
	trace   []byte
	Start   time.Time
	dir     string
	secDir  string
	nodeKey *rsa.PrivateKey
	c1Key   *rsa.PrivateKey
	c2Key   *rsa.PrivateKey
	acl     map[string][]aclEntry // client id -> entries as last set through the API
	clients map[string]bool
	cells   map[string]bool
	tokens  map[string]string // cached valid tokens: kind -> token
	tokenAt map[string]time.Time
}

func (r *SecRun) ev(format string, args ...any) {
	r.trace = append(r.trace, fmt.Sprintf(format, args...)...)
	r.trace = append(r.trace, '\n')
}

func loadKey(path string) *rsa.PrivateKey {
	b, err := os.ReadFile(path)
	if err != nil {
		return nil
	}
	k, err := security.ParseRsaPrivateKeyFromPem(b)
	if err != nil {
		return nil
	}
	return k
}

func (r *SecRun) formPost(path string, form url.Values) (int, []byte) {
	return r.H.Do("POST", path, map[string]string{"Content-Type": "application/x-www-form-urlencoded"}, []byte(form.Encode()))
}

// adminToken logs in with the admin credentials.
func (r *SecRun) adminToken() (string, error) {
	code, body := r.formPost("/security/token", url.Values{"grant_type": {"client_credentials"}, "client_id": {adminUser}, "client_secret": {adminPass}})
	if code != 200 {
		return "", fmt.Errorf("admin login: %d %s", code, body)
	}
	var tr struct {
		AccessToken string `json:"access_token"`
	}
	_ = json.Unmarshal(body, &tr)
	return tr.AccessToken, nil
}

// clientToken performs the client-assertion flow for a registered client.
func (r *SecRun) clientToken(id string, key *rsa.PrivateKey) (string, error) {
	assertion, err := security.CreateJWTForTokenRequest(id, "node:"+nodeID, key)
	if err != nil {
		return "", err
	}
	code, body := r.formPost("/security/token", url.Values{"grant_type": {"client_credentials"},
		"client_assertion_type": {"urn:ietf:params:oauth:grant-type:jwt-bearer"}, "client_assertion": {assertion}})
	if code != 200 {
		return "", fmt.Errorf("client login: %d %s", code, body)
	}
	var tr struct {
		AccessToken string `json:"access_token"`
	}
	_ = json.Unmarshal(body, &tr)
	return tr.AccessToken, nil
}

func (r *SecRun) forge(method jwt.SigningMethod, key any, sub string, roles []string, iss, aud string, exp time.Time) string {
	claims := security.CustomClaims{Roles: roles}
	claims.RegisteredClaims = jwt.RegisteredClaims{ExpiresAt: jwt.NewNumericDate(exp), Issuer: iss, Audience: jwt.ClaimStrings{aud}, Subject: sub}
	tok := jwt.NewWithClaims(method, claims)
	if roles == nil {
		// no roles claim at all (not "roles": null)
		tok = jwt.NewWithClaims(method, jwt.MapClaims{"exp": exp.Unix(), "iss": iss, "aud": []string{aud}, "sub": sub})
	}
	if method == jwt.SigningMethodNone {
		s, _ := tok.SignedString(jwt.UnsafeAllowNoneSignatureType)
		return s
	}
	s, err := tok.SignedString(key)
	if err != nil {
		return "forge-failed"
	}
	return s
}

// token returns (token, valid, role) for a token kind at the current simulated time.
func (r *SecRun) token(kind string) (tok string, valid bool, admin bool, subject string) {
	node := "node:" + nodeID
	in10 := time.Now().Add(10 * time.Minute)
	fresh := func(k string, get func() (string, error)) string {
		if t, ok := r.tokens[k]; ok && time.Since(r.tokenAt[k]) < 10*time.Minute {
			return t
		}
		t, err := get()
		if err != nil {
			return ""
		}
		r.tokens[k], r.tokenAt[k] = t, time.Now()
		return t
	}
	switch kind {
	case "none":
		return "", false, false, ""
	case "admin":
		return fresh("admin", r.adminToken), true, true, adminUser
	case "client":
		return fresh("client1", func() (string, error) { return r.clientToken("client1", r.c1Key) }), true, false, "client1"
	case "expired":
		// a genuine client token whose 15 minutes have passed
		if t, ok := r.tokens["old-client1"]; ok && time.Since(r.tokenAt["old-client1"]) > 15*time.Minute {
			return t, false, false, "client1"
		}
		return r.forge(jwt.SigningMethodRS256, r.nodeKey, "client1", []string{"client"}, node, node, time.Now().Add(-time.Second)), false, false, "client1"
	case "noroles":
		// a valid token of client1 that carries no roles claim at all (as an identity provider's tokens do)
		return r.forge(jwt.SigningMethodRS256, r.nodeKey, "client1", nil, node, node, in10), true, false, "client1"
	case "wrongkey":
		return r.forge(jwt.SigningMethodRS256, r.c2Key, "client1", []string{"admin"}, node, node, in10), false, true, "client1"
	case "wrongiss":
		return r.forge(jwt.SigningMethodRS256, r.nodeKey, "client1", []string{"admin"}, "node:other", node, in10), false, true, "client1"
	case "wrongaud":
		return r.forge(jwt.SigningMethodRS256, r.nodeKey, "client1", []string{"admin"}, node, "node:other", in10), false, true, "client1"
	case "hs256":
		pub, _ := security.ExportRsaPublicKeyAsPem(&r.nodeKey.PublicKey)
		return r.forge(jwt.SigningMethodHS256, []byte(pub), "client1", []string{"admin"}, node, node, in10), false, true, "client1"
	case "algnone":
		return r.forge(jwt.SigningMethodNone, nil, "client1", []string{"admin"}, node, node, in10), false, true, "client1"
	}
	return "", false, false, ""
}

func matches(res, path string) bool {
	if res == path {
		return true
	}
	if strings.HasSuffix(res, "*") && strings.HasPrefix(path, res[:len(res)-1]) {
		return true
	}
	return false
}

// granted applies the rule of the property to an ACL set.
func granted(acl []aclEntry, path, need string) (ok bool, why string) {
	allow := false
	for _, e := range acl {
		if !matches(e.Resource, path) {
			continue
		}
		covers := e.Action == need || (need == "read" && e.Action == "write")
		if e.Deny && (e.Action == need || (need == "write" && e.Action == "write") || (need == "read" && e.Action == "read")) {
			return false, "deny-entry"
		}
		if !e.Deny && covers {
			allow = true
		}
	}
	if allow {
		return true, ""
	}
	for _, e := range acl {
		if matches(e.Resource, path) && !e.Deny && e.Action == "read" && need == "write" {
			return false, "read-grant-only"
		}
	}
	return false, "no-matching-entry"
}

func openRoute(path string) bool {
	for _, p := range []string{"/health", "/mimiro-favicon.png", "/favicon.ico", "/api", "/static", "/security/token"} {
		if strings.HasPrefix(path, p) {
			return true
		}
	}
	return false
}

func needOf(method, routePath string) string {
	if method == "GET" || method == "HEAD" || method == "OPTIONS" {
		return "read"
	}
	if method == "POST" && routePath == "/query" {
		return "read" // the query endpoint only reads
	}
	return "write"
}

func fillPath(p, dataset string) string {
	rep := strings.NewReplacer(":dataset", dataset, ":ds", dataset, ":jobid", "job1", ":clientid", "client1", ":contentId", "c1", ":providerName", "p1")
	return rep.Replace(p)
}

func bodyFor(method, routePath string) []byte {
	if method == "GET" || method == "DELETE" {
		return nil
	}
	switch {
	case strings.HasSuffix(routePath, "/entities"):
		return udaBody([]Ent{{"id": MkE + "x1", "props": map[string]any{MkS + "a": "1"}, "refs": map[string]any{}}})
	case routePath == "/transactions":
		return []byte(`{"@context":{"namespaces":{"_":"` + ExE + `"}},"a":[{"id":"x2","props":{},"refs":{}}]}`)
	case routePath == "/query":
		return []byte(`{"entityId":"` + ExE + `x1"}`)
	case routePath == "/jobs":
		b, _ := json.Marshal(jobConfig("job2", map[string]any{"Type": "DatasetSource", "Name": "a"}, map[string]any{"Type": "DevNullSink"}, nil, "incremental", 10))
		return b
	case routePath == "/compact":
		return []byte(`{"dataset":"a","strategy":"deduplication"}`)
	case strings.HasPrefix(routePath, "/security/clients/"):
		return []byte(`[{"Resource":"/datasets/zz","Action":"read","Deny":false}]`)
	case routePath == "/security/clients":
		return []byte(`{"ClientID":"probe","PublicKey":null,"Deleted":false}`)
	}
	return []byte(`{}`)
}

func (r *SecRun) setACL(adminTok, client string, acl []aclEntry) error {
	b, _ := json.Marshal(acl)
	code, body := r.H.Do("POST", "/security/clients/"+client+"/acl", map[string]string{"Authorization": "Bearer " + adminTok}, b)
	if code != 200 {
		return fmt.Errorf("set acl: %d %s", code, body)
	}
	r.acl[client] = acl
	return nil
}

func (r *SecRun) registerClient(adminTok, id string, key *rsa.PrivateKey) error {
	pub, _ := security.ExportRsaPublicKeyAsPem(&key.PublicKey)
	b, _ := json.Marshal(security.ClientInfo{ClientID: id, PublicKey: []byte(pub)})
	code, body := r.H.Do("POST", "/security/clients", map[string]string{"Authorization": "Bearer " + adminTok}, b)
	if code != 200 {
		return fmt.Errorf("register client: %d %s", code, body)
	}
	r.clients[id] = true
	return nil
}

// persisted reads the registrations and ACLs back through the API.
func (r *SecRun) persisted(adminTok string) (string, error) {
	code, body := r.H.Do("GET", "/security/clients", map[string]string{"Authorization": "Bearer " + adminTok}, nil)
	if code != 200 {
		return "", fmt.Errorf("get clients: %d", code)
	}
	var cl map[string]any
	_ = json.Unmarshal(body, &cl)
	ids := sortedKeys(cl)
	out := []string{"clients=" + strings.Join(ids, ",")}
	for _, id := range sortedKeys(r.clients) {
		if !r.clients[id] {
			continue
		}
		code, body := r.H.Do("GET", "/security/clients/"+id+"/acl", map[string]string{"Authorization": "Bearer " + adminTok}, nil)
		if code != 200 {
			return "", fmt.Errorf("get acl: %d", code)
		}
		var l []aclEntry
		_ = json.Unmarshal(body, &l)
		out = append(out, fmt.Sprintf("%s=%v", id, l))
	}
	return strings.Join(out, ";"), nil
}

func aclShape(acl []aclEntry) string {
	var l []string
	for _, e := range acl {
		s := e.Resource + ":" + e.Action
		if e.Deny {
			s += ":deny"
		}
		l = append(l, s)
	}
	sort.Strings(l)
	return strings.Join(l, ",")
}

// RunSecScenario executes profile C16.
func RunSecScenario(sc *Scenario) (vd *Verdict) {
	vd = &Verdict{Verdict: "ok", Property: sc.Property, Profile: sc.Profile, Seed: sc.Seed}
	r := &SecRun{Sc: sc, Stats: map[string]int64{}, Start: time.Now(), acl: map[string][]aclEntry{}, clients: map[string]bool{}, cells: map[string]bool{},
		tokens: map[string]string{}, tokenAt: map[string]time.Time{}}
	r.nodeKey = loadKey(FixtureDir() + "/node_key")
	r.c1Key = loadKey(FixtureDir() + "/client1_key")
	r.c2Key = loadKey(FixtureDir() + "/client2_key")
	if r.nodeKey == nil || r.c1Key == nil || r.c2Key == nil {
		vd.Verdict, vd.Message = "error", "key fixtures missing (run bin/setup.sh)"
		return
	}
	r.dir, r.secDir = NewDir("sechub"), NewDir("sec")
	h, err := OpenWebHub(r.dir, r.secDir, sc.Knobs, true)
	if err != nil {
		vd.Verdict, vd.Message = "error", err.Error()
		return
	}
	r.H = h
	defer func() {
		_ = r.H.Close()
		os.RemoveAll(r.dir)
		os.RemoveAll(r.secDir)
	}()
	fail := func(v *Violation, step int) {
		vd.Verdict = "violation"
		if v.Oracle == "harness" {
			vd.Verdict = "invalid"
		}
		vd.Property, vd.Oracle, vd.Signature, vd.Message, vd.Step = "C16", v.Oracle, v.Signature, v.Message, step
	}
	defer func() {
		r.Stats["cells"] = int64(len(r.cells))
		vd.Stats = r.Stats
		vd.TraceHash = fmt.Sprintf("%x", sha8(r.trace))
		vd.SimNS = int64(time.Since(r.Start))
		vd.Nontrivial = r.Stats["requests"] >= 5
	}()
	for _, d := range []string{"a", "ab", "b"} {
		if _, err := h.Dsm.CreateDataset(d, nil); err != nil {
			vd.Verdict, vd.Message = "error", err.Error()
			return
		}
	}
	type route struct{ Method, Path string }
	var routes []route
	for _, rt := range h.Full.Web.Echo.Routes() {
		if rt.Method == "echo_route_not_found" || strings.Contains(rt.Path, "*") {
			continue
		}
		routes = append(routes, route{rt.Method, rt.Path})
	}
	sort.Slice(routes, func(i, j int) bool { return routes[i].Method+routes[i].Path < routes[j].Method+routes[j].Path })
	r.Stats["routes_registered"] = int64(len(routes))
	for i := range sc.Ops {
		op := &sc.Ops[i]
		time.Sleep(time.Duration(max64(op.Sleep, 1)))
		switch op.K {
		case "setup":
			adm, err := r.adminToken()
			if err != nil {
				fail(viol("C16", "harness", "invalid", "%v", err), i)
				return
			}
			if err := r.registerClient(adm, "client1", r.c1Key); err != nil {
				fail(viol("C16", "harness", "invalid", "%v", err), i)
				return
			}
			if err := r.registerClient(adm, "client2", r.c2Key); err != nil {
				fail(viol("C16", "harness", "invalid", "%v", err), i)
				return
			}
		case "acl":
			adm, _, _, _ := r.token("admin")
			var acl []aclEntry
			b, _ := json.Marshal(op.A)
			_ = json.Unmarshal(b, &acl)
			if op.S == "delete" {
				code, _ := r.H.Do("DELETE", "/security/clients/"+op.DS+"/acl", map[string]string{"Authorization": "Bearer " + adm}, nil)
				if code != 200 {
					fail(viol("C16", "harness", "invalid", "delete acl: %d", code), i)
					return
				}
				r.acl[op.DS] = nil
			} else if err := r.setACL(adm, op.DS, acl); err != nil {
				fail(viol("C16", "harness", "invalid", "%v", err), i)
				return
			}
			r.ev("acl %s %s", op.DS, aclShape(r.acl[op.DS]))
		case "aclflip":
			// the admin posts the client's ACL again with one entry turned from allow into deny (or back): same
			// resources, same actions, same order
			adm, _, _, _ := r.token("admin")
			cur := append([]aclEntry(nil), r.acl[op.DS]...)
			if len(cur) == 0 {
				continue
			}
			k := op.N % len(cur)
			cur[k].Deny = !cur[k].Deny
			if err := r.setACL(adm, op.DS, cur); err != nil {
				fail(viol("C16", "harness", "invalid", "%v", err), i)
				return
			}
			r.Stats["acl_deny_flips"]++
			r.ev("aclflip %s %s", op.DS, aclShape(cur))
		case "crossAssertion":
			// client2 asks for a token with an assertion it signs with its own key, naming itself as issuer and client1 as
			// subject: whatever the hub answers, it must not hand out a token for client1
			if !r.clients["client1"] || !r.clients["client2"] {
				continue
			}
			claims := jwt.RegisteredClaims{Issuer: "client2", Subject: "client1", Audience: jwt.ClaimStrings{"node:" + nodeID},
				ExpiresAt: jwt.NewNumericDate(time.Now().Add(time.Minute)), ID: fmt.Sprintf("x%d", i)}
			if op.N == 1 {
				claims.Issuer = "" // subject only, signed with the other client's key
			}
			assertion, err := jwt.NewWithClaims(jwt.SigningMethodRS256, claims).SignedString(r.c2Key)
			if err != nil {
				continue
			}
			code, body := r.formPost("/security/token", url.Values{"grant_type": {"client_credentials"},
				"client_assertion_type": {"urn:ietf:params:oauth:grant-type:jwt-bearer"}, "client_assertion": {assertion}})
			r.Stats["cross_subject_assertions"]++
			if code == 200 {
				var tr struct {
					AccessToken string `json:"access_token"`
				}
				_ = json.Unmarshal(body, &tr)
				parts := strings.Split(tr.AccessToken, ".")
				sub := ""
				if len(parts) == 3 {
					if pb, err := base64.RawURLEncoding.DecodeString(parts[1]); err == nil {
						var cl struct {
							Sub string `json:"sub"`
						}
						_ = json.Unmarshal(pb, &cl)
						sub = cl.Sub
					}
				}
				if sub != "client2" {
					fail(viol("C16", "authentication", "token-issued-for-another-subject", "client2 signed a token request naming subject client1 (issuer %q) with its own key; the hub answered 200 with an access token for subject %q: client2 is now served under client1's ACL", claims.Issuer, sub), i)
					return
				}
			}
			r.ev("crossAssertion -> %d", code/100)
		case "unregister":
			// the admin deletes a client registration; tokens that client obtained before stay cryptographically valid
			adm, _, _, _ := r.token("admin")
			b, _ := json.Marshal(security.ClientInfo{ClientID: op.DS, Deleted: true})
			if code, body := r.H.Do("POST", "/security/clients", map[string]string{"Authorization": "Bearer " + adm}, b); code != 200 {
				fail(viol("C16", "harness", "invalid", "unregister client: %d %s", code, body), i)
				return
			}
			r.clients[op.DS] = false
			r.acl[op.DS] = nil
			r.Stats["clients_unregistered"]++
			r.ev("unregister %s", op.DS)
		case "register":
			adm, _, _, _ := r.token("admin")
			key := r.c1Key
			if op.DS == "client2" {
				key = r.c2Key
			}
			if err := r.registerClient(adm, op.DS, key); err != nil {
				fail(viol("C16", "harness", "invalid", "%v", err), i)
				return
			}
			r.ev("register %s", op.DS)
		case "advance":
			time.Sleep(time.Duration(op.N) * time.Second)
			// keep a client token around that will be expired later
			if t, ok := r.tokens["client1"]; ok {
				if _, has := r.tokens["old-client1"]; !has {
					r.tokens["old-client1"], r.tokenAt["old-client1"] = t, r.tokenAt["client1"]
				}
			}
		case "req":
			// op.N indexes the route table (modulo), op.S is the token kind, op.DS the dataset for path parameters
			rt := routes[op.N%len(routes)]
			if want, _ := op.M["route"].(string); want != "" {
				for _, x := range routes {
					if x.Method+" "+x.Path == want {
						rt = x
					}
				}
			}
			path := fillPath(rt.Path, op.DS)
			tok, valid, adminRole, subject := r.token(op.S)
			hdr := map[string]string{}
			if tok != "" {
				hdr["Authorization"] = "Bearer " + tok
			}
			sent := path
			if op.Limit == 1 && op.DS != "" && strings.Contains(rt.Path, ":d") {
				// the same resource spelt with a percent-escaped character in the dataset name: what is granted or
				// denied is the resource, not its spelling
				last := op.DS[len(op.DS)-1]
				sent = fillPath(rt.Path, op.DS[:len(op.DS)-1]+fmt.Sprintf("%%%02X", last))
				r.Stats["requests_escaped_path"]++
			}
			code, _ := r.H.Do(rt.Method, sent, hdr, bodyFor(rt.Method, rt.Path))
			r.Stats["requests"]++
			served := code != 401 && code != 403
			if served {
				r.Stats["served"]++
			}
			need := needOf(rt.Method, rt.Path)
			shape := aclShape(r.acl["client1"])
			r.cells[fmt.Sprintf("%s|%s|%s|%s", rt.Method, rt.Path, op.S, shape)] = true
			r.ev("req %s %s %s -> %d", rt.Method, rt.Path, op.S, code/100)
			if openRoute(path) || !served {
				continue
			}
			if !valid {
				fail(viol("C16", "authentication", "served-with-bad-token:"+op.S, "%s %s with a %s token was answered %d: the request got past authentication", rt.Method, path, op.S, code), i)
				return
			}
			if adminRole {
				continue
			}
			if rt.Path == "/" {
				// the service banner (name and port) registered next to /health names no resource an ACL
				// could grant; it is held to the token rule only
				continue
			}
			ok, why := granted(r.acl[subject], path, need)
			if !ok {
				mclass := "read"
				if need == "write" {
					mclass = "mutation:" + rt.Method
				}
				fail(viol("C16", "authorization", "served-beyond-acl:"+why+":"+mclass, "%s %s by client %s (ACL [%s]) was answered %d; it needs %s on %s and the ACL does not grant that (%s)", rt.Method, path, subject, shape, code, need, path, why), i)
				return
			}
		case "list":
			tok, _, _, subject := r.token("client")
			code, body := r.H.Do("GET", "/datasets", map[string]string{"Authorization": "Bearer " + tok}, nil)
			r.Stats["requests"]++
			if code != 200 {
				continue
			}
			var l []struct{ Name string }
			_ = json.Unmarshal(body, &l)
			for _, d := range l {
				if ok, why := granted(r.acl[subject], "/datasets/"+d.Name, "read"); !ok {
					fail(viol("C16", "authorization", "dataset-list-shows-ungranted:"+why, "GET /datasets for client %s (ACL [%s]) lists %q which the ACL does not grant (%s)", subject, aclShape(r.acl[subject]), d.Name, why), i)
					return
				}
			}
			r.Stats["dataset_lists_checked"]++
		case "restart":
			adm, _, _, _ := r.token("admin")
			before, err := r.persisted(adm)
			if err != nil {
				fail(viol("C16", "harness", "invalid", "%v", err), i)
				return
			}
			_ = r.H.Close()
			nh, err := OpenWebHub(r.dir, r.secDir, sc.Knobs, true)
			if err != nil {
				fail(viol("C16", "persistence", "hub-does-not-restart", "%v", err), i)
				return
			}
			r.H = nh
			r.tokens, r.tokenAt = map[string]string{}, map[string]time.Time{}
			adm2, err := r.adminToken()
			if err != nil {
				fail(viol("C16", "persistence", "admin-login-after-restart", "%v", err), i)
				return
			}
			after, err := r.persisted(adm2)
			if err != nil {
				fail(viol("C16", "harness", "invalid", "%v", err), i)
				return
			}
			r.Stats["restarts"]++
			if after != before {
				cls := "acls-changed"
				if strings.Split(after, ";")[0] != strings.Split(before, ";")[0] {
					cls = "clients-changed"
				}
				fail(viol("C16", "persistence", "security-state-lost-on-restart:"+cls, "client registrations / ACLs before restart: %s; after: %s", before, after), i)
				return
			}
			r.ev("restart")
		}
	}
	return
}

func max64(a, b int64) int64 {
	if a > b {
		return a
	}
	return b
}
