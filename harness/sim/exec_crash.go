package verifsim

import (
	"crypto/sha256"
	"errors"

	"github.com/dgraph-io/badger/v4"

	"fmt"
	"os"
	"sort"
	"strings"
	"time"

	"github.com/mimiro-io/datahub/internal/server"
)

// Crash / fault-enumeration executor for sequential histories (C04; reused by C07, C12, C13).

type crashState struct {
	mem      *NSMem
	dir      string
	desc     string // e.g. "point StoreEntities.afterIDCommit#2" or "wal op3 frac=999 byte=8123"
	class    string // normalised fault position for signatures
	inflight int    // index of the op in flight (-1: none, state must equal acked)
	acked    int    // number of ops acknowledged before the crash
}

type CrashRun struct {
	*SeqRun
	models          []*Model // models[i] = model after i acknowledged ops (ops that failed do not change it)
	walEnds         []int64  // wal end after op i (index i+1); walEnds[0] before the first op
	states          []*crashState
	curOp           int
	keptPaged       []keptPaged // paged queries that were open when a dataset was deleted, to be followed again after a GC
	maxSnap         int
	fp              string
	applied         []bool
	grabbed         map[string]*grabbedDS
	mem             *NSMem          // C13: every mapping handed out so far
	memAfter        []*NSMem        // memAfter[i] = mem after i ops
	written         map[string]bool // identifiers (as in the scenario) written so far
	settings        map[string]dsSettings
	backupDir       string
	backupMgr       *server.BackupManager
	atBackup        *Model // model when the last completed backup run started
	locationForeign bool   // the backup location has been taken over by another store
	walEpochStart   int    // WAL offsets are only comparable for ops after the last clean restart
	deletedIDs      map[uint32]bool
	seenDsIDs       map[uint32]string // internal dataset id -> "name#incarnation"
	incarnation     map[string]int
	listTokens      map[string]*listToken // listing tokens handed out before their dataset was deleted
}

type listToken struct {
	token string
	ids   map[string]bool // what the deleted dataset held
}

// grabbedDS is a dataset handle a client obtained earlier and keeps using (as a running job's
// sink or an HTTP handler does), whatever happens to the dataset meanwhile.
type grabbedDS struct {
	ds  *server.Dataset
	cur string // current name of that dataset, "" once it has been deleted
}

// noteDatasetIDs records which internal id every live dataset has.
func (r *CrashRun) noteDatasetIDs() {
	for _, n := range r.H.Store.VerifDatasetNames() {
		d := r.H.Dataset(n)
		if d == nil {
			continue
		}
		if _, ok := r.seenDsIDs[d.InternalID]; !ok {
			r.incarnation[n]++
			r.seenDsIDs[d.InternalID] = n + "#" + fmt.Sprint(r.incarnation[n])
		}
	}
}

// rawNoDatasetKeys checks that garbage collection left no key of a deleted dataset behind.
func rawNoDatasetKeys(h *Hub, ids map[uint32]bool, prop string) *Violation {
	var bad string
	_ = h.Store.VerifDB().View(func(txn *badger.Txn) error {
		it := txn.NewIterator(badger.DefaultIteratorOptions)
		defer it.Close()
		for it.Rewind(); it.Valid(); it.Next() {
			k := it.Item().Key()
			if len(k) < 2 {
				continue
			}
			var ds uint32
			switch be16(k) {
			case server.EntityIDToJSONIndexID:
				if len(k) != 24 {
					continue
				}
				ds = be32(k[10:])
			case server.DatasetEntityChangeLog, server.DatasetLatestEntities:
				if len(k) < 6 {
					continue
				}
				ds = be32(k[2:])
			case server.OutgoingRefIndex, server.IncomingRefIndex:
				if len(k) != 40 {
					continue
				}
				ds = be32(k[36:])
			default:
				continue
			}
			if ids[ds] {
				bad = fmt.Sprintf("index family %d still holds a key of deleted dataset id %d", be16(k), ds)
				return nil
			}
		}
		return nil
	})
	if bad != "" {
		return viol(prop, "gc", "deleted-dataset-keys-remain", "after garbage collection %s", bad)
	}
	return nil
}

var errInjected = errors.New("injected fault")

// crashablePoints lists the hook points at which C04 takes crash snapshots.
var crashablePoints = []string{
	"StoreEntities.beforeIDCommit", "StoreEntities.afterIDCommit", "StoreEntities.afterDataCommit", "StoreEntities.afterUpdateDataset",
	"ExecuteTransaction.beforeIDCommit", "ExecuteTransaction.afterIDCommit", "ExecuteTransaction.afterDataCommit", "ExecuteTransaction.afterUpdateDataset",
	"updateDataset.beforeStore", "StoreEntitiesWithTransaction.entity",
}

// dsmPoints are the additional crash points of the dataset-management and GC paths (C07).
var dsmPoints = []string{
	"CreateDataset.afterNextID", "CreateDataset.afterRecord", "UpdateDataset.afterMove", "UpdateDataset.afterTombstone",
	"DeleteDataset.afterRecordDelete", "DeleteDataset.afterDeletedSet", "gc.beforeDeleteBatch",
	"compact.beforeFlush", "compact.afterFlush",
}

func pointClass(name string) string { return name }

func (r *CrashRun) snapshot(desc, class string, inflight int) {
	if len(r.states) >= r.maxSnap {
		r.Stats["snapshots_skipped_cap"]++
		return
	}
	d := NewDir("crash")
	if err := CopyDirSparse(r.H.Dir, d); err != nil {
		r.Stats["snapshot_errors"]++
		return
	}
	r.states = append(r.states, &crashState{dir: d, desc: desc, class: class, inflight: inflight, acked: r.ackedCount(), mem: r.mem.Clone()})
}

func (r *CrashRun) ackedCount() int { return r.curOp }

// verifyState reopens a crash state and checks it against the acknowledged history.
func (r *CrashRun) verifyState(cs *crashState) *Violation {
	prop := r.Sc.Property
	defer os.RemoveAll(cs.dir)
	h, err := OpenHub(cs.dir, r.Sc.Knobs)
	if err != nil {
		return viol(prop, "reopen", "store-does-not-open@"+cs.class, "after crash at %s the store does not open: %v", cs.desc, err)
	}
	defer h.Close()
	r.Stats["crash_states_verified"]++
	m0 := r.models[cs.acked]
	cands := []*Model{m0}
	if cs.inflight >= 0 && cs.inflight+1 < len(r.models) && r.applied[cs.inflight] {
		cands = append(cands, r.models[cs.inflight+1])
	}
	var last *Violation
	var msgs []string
	matched := -1
	if cs.inflight >= 0 && cs.inflight < len(r.Sc.Ops) && r.Sc.Ops[cs.inflight].K == "compact" {
		// any prefix of the flushes may have landed: the feed may lack a subset of the removable versions
		mc := m0.Clone()
		if v := CheckCompactedFeed(h, mc, r.Sc.Ops[cs.inflight].DS, prop); v != nil {
			v.Signature = "crash-during-compaction:" + v.Signature + "@" + cs.class
			v.Message = fmt.Sprintf("after crash at %s: %s", cs.desc, v.Message)
			return v
		}
		cands = []*Model{mc}
	}
	for ci, m := range cands {
		v := r.checkAgainst(h, m)
		if v == nil {
			matched = ci
			break
		}
		last = v
		msgs = append(msgs, v.Message)
	}
	if matched < 0 {
		return viol(prop, "crash-atomicity", "neither-before-nor-after@"+cs.class+":"+last.Signature,
			"after crash at %s the state equals neither the acknowledged history (%d ops) nor that plus the operation in flight (%s): vs acknowledged: %s", cs.desc, cs.acked, opDesc(r.Sc, cs.inflight), strings.Join(msgs, " || vs acknowledged+in-flight: "))
	}
	if matched == 1 {
		r.Stats["inflight_survived"]++
	}
	if prop == "C13" && cs.mem != nil {
		var cur []string
		for c := range cs.mem.IDs {
			cur = append(cur, c)
		}
		if v := ObserveNS(h, cs.mem.Clone(), cur, "@"+cs.class); v != nil {
			v.Message = fmt.Sprintf("after crash at %s: %s", cs.desc, v.Message)
			return v
		}
	}
	rs, v := RawConsistency(h, prop)
	if v != nil {
		v.Signature += "@" + cs.class
		v.Message = fmt.Sprintf("after crash at %s: %s", cs.desc, v.Message)
		return v
	}
	if prop == "C07" {
		if v := r.postCrashDatasetProbe(h, cands[matched], cs); v != nil {
			return v
		}
		rs, _ = RawConsistency(h, prop)
	}
	// the store accepts writes: change positions strictly increase, internal ids are not reused
	var names []string
	for _, n := range cands[matched].Names() {
		if n != "core.Dataset" {
			names = append(names, n)
		}
	}
	if len(names) > 0 {
		ds := h.Dataset(names[0])
		fresh := []Ent{{"id": MkE + "postcrash1", "props": map[string]any{MkS + "a0": "x"}, "refs": map[string]any{MkS + "postpred": MkE + "postcrash2"}},
			{"id": MkE + "postcrash3", "props": map[string]any{}, "refs": map[string]any{}}}
		time.Sleep(time.Nanosecond)
		if err := ds.StoreEntities(h.Entities(fresh)); err != nil {
			return viol(prop, "post-crash-write", "write-rejected@"+cs.class, "after crash at %s a new batch is rejected: %v", cs.desc, err)
		}
		seqs, _ := ds.VerifChangeKeys()
		old, had := rs.MaxSeq[ds.InternalID]
		prior := rs.SeqCount[ds.InternalID]
		fresh2 := seqs
		if prior <= len(seqs) {
			fresh2 = seqs[prior:]
		}
		bad := len(fresh2) != 2
		for _, s := range fresh2 {
			if had && s <= old {
				bad = true
			}
		}
		if bad {
			return viol(prop, "post-crash-write", "change-position-reused@"+cs.class, "after crash at %s two new versions got change positions %v; before the write the dataset had %d entries with maximum position %d", cs.desc, fresh2, prior, old)
		}
		for _, id := range []string{"postcrash1", "postcrash2", "postcrash3", "postpred"} {
			mk := MkE
			if id == "postpred" {
				mk = MkS
			}
			iid, ok := h.Store.VerifIDForURI(h.curie(mk + id))
			if !ok || iid <= rs.MaxInternalID {
				return viol(prop, "post-crash-write", "internal-id-reused@"+cs.class, "after crash at %s the new identifier %s got internal id %d (present=%v), not above the previous maximum %d", cs.desc, id, iid, ok, rs.MaxInternalID)
			}
		}
		mm := cands[matched].Clone()
		mm.Batch(names[0], fresh)
		if v := CheckLatest(h, mm, names[0], append(append([]string(nil), r.Pool...), MkE+"postcrash1", MkE+"postcrash3"), nil); v != nil {
			v.Property, v.Oracle = prop, "post-crash-write"
			v.Signature += "@" + cs.class
			return v
		}
	}
	return nil
}

func tail(l []uint64, n int) []uint64 {
	if len(l) > n {
		return l[len(l)-n:]
	}
	return l
}

// checkAgainst compares every read API with model m.
func (r *CrashRun) checkAgainst(h *Hub, m *Model) *Violation {
	var have []string
	for _, n := range h.Store.VerifDatasetNames() {
		if n != "core.Dataset" {
			have = append(have, n)
		}
	}
	sort.Strings(have)
	var expNames []string
	for _, n := range m.Names() {
		if n != "core.Dataset" {
			expNames = append(expNames, n)
		}
	}
	if strings.Join(have, ",") != strings.Join(expNames, ",") {
		return viol(r.Sc.Property, "state", "dataset-list", "datasets are %v, expected %v", have, expNames)
	}
	if cd := m.DS["core.Dataset"]; cd != nil {
		// what the scenario's transactions wrote into core.Dataset, next to the hub's own meta-entities there: judged by
		// scoped lookups (all-or-nothing with the other datasets of the transaction)
		for _, id := range r.Pool {
			full := markerToFull(id)
			got, err := h.Store.GetEntity(h.curie(id), []string{"core.Dataset"}, true)
			if err != nil {
				return viol(r.Sc.Property, "state", "lookup-error", "lookup %s in core.Dataset: %v", id, err)
			}
			if v := compareScoped(h, cd, "core.Dataset", full, cd.LatestOf(full), got); v != nil {
				v.Signature = "core.Dataset-part:" + v.Signature
				return v
			}
		}
	}
	if r.Sc.Property == "C07" {
		// nothing of a deleted dataset may show up in merged lookups either
		for _, id := range r.Pool {
			if v := CheckMergedLookup(h, m, id, nil); v != nil {
				v.Property = "C07"
				return v
			}
		}
	}
	for _, n := range expNames {
		if h.Dataset(n) == nil {
			return viol(r.Sc.Property, "state", "dataset-missing", "dataset %s missing", n)
		}
		if v := CheckLatest(h, m, n, r.Pool, []int{2}); v != nil {
			return v
		}
		if v := CheckFeed(h, m, n, nil); v != nil {
			return v
		}
	}
	scopes := [][]string{nil}
	for _, n := range expNames {
		scopes = append(scopes, []string{n})
	}
	if m.DS["core.Dataset"] != nil {
		scopes = scopes[1:] // unscoped queries would also see what the transactions wrote into core.Dataset
	}
	v, q := CheckRelations(h, m, r.Pool, r.Preds, scopes, nil, r.knownReporter())
	r.Stats["queries"] += int64(q)
	return v
}

// RunCrashScenario executes profile C04.
func RunCrashScenario(sc *Scenario) (vd *Verdict) {
	vd = &Verdict{Verdict: "ok", Property: sc.Property, Profile: sc.Profile, Seed: sc.Seed}
	sr, err := NewSeqRun(sc)
	if err != nil {
		vd.Verdict, vd.Message = "error", err.Error()
		return
	}
	r := &CrashRun{SeqRun: sr, maxSnap: int(sc.Knob("maxStates", 24)), deletedIDs: map[uint32]bool{}, seenDsIDs: map[uint32]string{}, incarnation: map[string]int{}, grabbed: map[string]*grabbedDS{}, mem: NewNSMem(), written: map[string]bool{}, settings: map[string]dsSettings{}}
	for _, d := range sc.Datasets {
		r.settings[d] = dsSettings{}
	}
	r.noteDatasetIDs()
	defer func() {
		for _, cs := range r.states {
			os.RemoveAll(cs.dir)
		}
		// a crashed hub is never closed cleanly; close it here only to release memory
		r.Cleanup()
		if r.backupDir != "" {
			os.RemoveAll(r.backupDir)
		}
	}()
	fail := func(v *Violation, step int) {
		vd.Verdict = "violation"
		if v.Oracle == "harness" {
			vd.Verdict = "invalid"
		}
		vd.Property, vd.Oracle, vd.Signature, vd.Message, vd.Step = sc.Property, v.Oracle, v.Signature, v.Message, step
	}
	defer func() {
		for k, v := range PointHits() {
			if !strings.HasPrefix(k, "fault:") && !strings.HasPrefix(k, "go:") {
				r.Stats["point_"+k] += v
			}
		}
		vd.Stats = r.Stats
		vd.TraceHash = r.TraceHash()
		vd.SimNS = int64(time.Since(r.Start))
		vd.Nontrivial = r.Stats["crash_states_verified"] >= 1 && r.Stats["commits"] >= 1
		if sc.Property == "C07" {
			vd.Nontrivial = r.Stats["mgmt_ops"] >= 1 && r.Stats["commits"] >= 1
		}
		if sc.Property == "C12" {
			vd.Nontrivial = r.Stats["compactions"] >= 1 && r.Stats["crash_states_verified"] >= 1
		}
		if sc.Property == "C13" {
			vd.Nontrivial = r.Stats["roundtrips"]+r.Stats["commits"] >= 2
		}
		if sc.Property == "C19" {
			vd.Nontrivial = r.Stats["mgmt_ops"] >= 1 && r.Stats["commits"] >= 1
		}
		if sc.Property == "C20" {
			vd.Nontrivial = r.Stats["backup_runs"] >= 1 && r.Stats["restores_checked"] >= 1 && r.Stats["commits"] >= 1
		}
	}()
	armed := map[string]string{} // "point#hit" -> kind
	for _, f := range sc.Faults {
		armed[fmt.Sprintf("%s#%d", f.At, f.Hit)] = f.Kind
	}
	allPoints := sc.Knob("allPoints", 0) == 1
	hooks.onPoint = func(owner any, name string, hit int64) {
		key := fmt.Sprintf("%s#%d", name, hit)
		if armed[key] == "crash" || (allPoints && isCrashable(name)) {
			r.Stats["fault_crash_at_point"]++
			r.snapshot("point "+key, "point:"+name, r.curOp)
		}
	}
	hooks.onFault = func(owner any, name string, hit int64) error {
		if armed[fmt.Sprintf("fault:%s#%d", name, hit)] == "error" {
			r.Stats["fault_injected_error"]++
			return errInjected
		}
		return nil
	}
	for _, op := range sc.Ops {
		for _, p := range op.Parts {
			if p.DS == "core.Dataset" && r.M.DS["core.Dataset"] == nil {
				r.M.Create("core.Dataset")
			}
		}
	}
	r.models = []*Model{r.M.Clone()}
	r.memAfter = []*NSMem{r.mem.Clone()}
	r.walEnds = []int64{WalEnd(r.H.Dir)}
	r.fp = FilesFingerprint(r.H.Dir)
	r.applied = make([]bool, len(sc.Ops))
	for i := range sc.Ops {
		op := &sc.Ops[i]
		r.curOp = i
		r.Step = i
		d := time.Duration(op.Sleep)
		if d < 1 {
			d = 1
		}
		time.Sleep(d)
		var werr error
		mgmt := false
		touched := []string{}
		switch op.K {
		case "batch":
			ds := r.H.Dataset(op.DS)
			if ds == nil {
				fail(viol(sc.Property, "harness", "invalid", "dataset %s does not exist", op.DS), i)
				return
			}
			r.noteWrites(op.DS, op.Ents)
			werr = ds.StoreEntities(r.H.Entities(op.Ents))
			touched = append(touched, op.DS)
		case "txn", "ctxtxn":
			t := &server.Transaction{DatasetEntities: map[string][]*server.Entity{}}
			for _, p := range op.Parts {
				r.noteWrites(p.DS, p.Ents)
				t.DatasetEntities[p.DS] = r.H.Entities(p.Ents)
				touched = append(touched, p.DS)
			}
			st := r.H.Store
			if op.K == "ctxtxn" {
				st = server.NewContextualStore(r.H.Store)
				r.Stats["ctx_txns"]++
			}
			werr = st.ExecuteTransaction(t)
		case "backup":
			mgmt = true
			if v := r.runBackup(); v != nil {
				fail(v, i)
				return
			}
		case "restoreCheck":
			mgmt = true
			if v := r.restoreCheck(); v != nil {
				fail(v, i)
				return
			}
		case "moveBackupLocation":
			// the hub is stopped and started with its backups pointed at a new, empty location: the next run has to put
			// everything there
			mgmt = true
			if r.backupDir != "" && !r.locationForeign {
				old := r.backupDir
				r.backupDir, r.backupMgr, r.atBackup = "", nil, nil
				if v := r.restart(); v != nil {
					fail(v, i)
					return
				}
				os.RemoveAll(old)
				r.Stats["backup_location_changes"]++
			}
		case "fullsyncStart":
			// a full sync is started on a dataset and left open (a job or client that is still at it, or has given up)
			mgmt = true
			if ds := r.H.Dataset(op.DS); ds != nil {
				werr = ds.StartFullSync()
				r.Stats["full_syncs_left_open"]++
			}
		case "takeover":
			mgmt = true
			if v := r.takeoverBackupLocation(); v != nil {
				fail(v, i)
				return
			}
		case "foreignBackup":
			mgmt = true
			if v := r.foreignBackup(); v != nil {
				fail(v, i)
				return
			}
		case "nsid":
			mgmt = true
			r.Stats["roundtrips"]++
			if v := RoundTrip(r.H, op.S, r.mem); v != nil {
				fail(v, i)
				return
			}
		case "lookupURI":
			// a client looks an entity up by its full URI; the namespace may be one the hub has not met yet. Whatever
			// prefix the hub takes for it from now on has to survive a restart (it is observed after every step)
			mgmt = true
			r.Stats["lookups_by_full_uri"]++
			if _, err := r.H.Store.GetEntity(op.S, nil, true); err != nil {
				fail(viol("C13", "roundtrip", "lookup-by-uri-rejected:"+uriShape(op.S), "GetEntity(%q) failed: %v", op.S, err), i)
				return
			}
		case "alias":
			mgmt = true
			r.Stats["alias_probes"]++
			if v := ContextAliasing(r.H, op.S); v != nil {
				fail(v, i)
				return
			}
		case "dup":
			mgmt = true
			if ds := r.H.Dataset(op.DS); ds != nil {
				ok, err := ds.VerifInjectDuplicate(r.H.curie(op.S), time.Now().UnixNano())
				if err == nil && ok {
					if cur := r.M.DS[op.DS].LatestOf(markerToFull(op.S)); cur != nil {
						r.M.DS[op.DS].ForceAppend(cur)
						r.Stats["legacy_duplicates"]++
					}
				}
			}
		case "compact":
			mgmt = true
			werr = r.H.Compact(op.DS, op.N)
			if werr == nil {
				r.Stats["compactions"]++
				if v := r.CheckAfterCompaction(op.DS); v != nil {
					fail(v, i)
					return
				}
			}
		case "grab":
			if d := r.H.Dataset(op.DS); d != nil {
				r.grabbed[op.DS] = &grabbedDS{ds: d, cur: op.DS}
			}
			mgmt = true
		case "batchStale":
			g := r.grabbed[op.DS]
			if g == nil {
				mgmt = true
				break
			}
			r.Stats["stale_handle_writes"]++
			werr = g.ds.StoreEntities(r.H.Entities(op.Ents))
			if werr == nil && g.cur != "" {
				r.M.Batch(g.cur, op.Ents)
			} else if werr == nil {
				r.Stats["stale_handle_writes_to_deleted"]++
			}
			mgmt = true
		case "deleteDataset":
			if d := r.H.Dataset(op.DS); d != nil {
				r.deletedIDs[d.InternalID] = true
			}
			for _, g := range r.grabbed {
				if g.cur == op.DS {
					g.cur = ""
				}
			}
			delete(r.settings, op.DS)
			// readers hold the map of deleted datasets without a lock: a delete must not change the map they hold
			heldMap := r.H.Store.VerifDeletedDatasets()
			heldLen := len(heldMap)
			// clients that started paged relationship queries scoped to the dataset before it goes away
			open := r.startPagedBeforeDelete(op.DS)
			// ... and a client that has read the first page of its listing (limit 1) and holds the token of the next
			if vd := r.H.Dataset(op.DS); vd != nil && sc.Property == "C07" {
				if res, err := vd.GetEntities("", 1); err == nil && res.ContinuationToken != "" && len(res.Entities) > 0 {
					if r.listTokens == nil {
						r.listTokens = map[string]*listToken{}
					}
					lt := &listToken{token: res.ContinuationToken, ids: map[string]bool{}}
					if all, err := vd.GetEntities("", 0); err == nil {
						for _, e := range all.Entities {
							lt.ids[r.H.Canon(e).ID] = true
						}
					}
					r.listTokens[op.DS] = lt
				}
			}
			werr = r.H.Dsm.DeleteDataset(op.DS)
			if werr == nil {
				if v := r.listWithOldTokens("after-delete"); v != nil {
					fail(v, i)
					return
				}
				if len(heldMap) != heldLen {
					fail(viol(sc.Property, "shared-state", "deleted-datasets-map-mutated-in-place", "DeleteDataset(%s) added to the map of deleted datasets that lock-free readers (lookups, relationship queries, garbage collector) already hold: a concurrent map read and write ends the process", op.DS), i)
					return
				}
				r.keptPaged = append(r.keptPaged, keptPaged{victim: op.DS, open: open})
				if v := r.continuePagedAfterDelete(op.DS, open); v != nil {
					fail(v, i)
					return
				}
			}
			mgmt = true
		case "createMany":
			for k := 0; k < op.N && werr == nil; k++ {
				name := fmt.Sprintf("many%04d", k)
				_, werr = r.H.Dsm.CreateDataset(name, nil)
				if werr == nil {
					r.M.Create(name)
					r.settings[name] = dsSettings{}
				}
			}
			r.Stats["datasets_created_in_bulk"] += int64(op.N)
			mgmt = true
		case "createDataset":
			st := settingsFromOp(op)
			if r.H.Dataset(op.DS) == nil {
				r.settings[op.DS] = st
			}
			_, werr = r.H.Dsm.CreateDataset(op.DS, st.config())
			if werr == nil {
				if v := r.listWithOldTokens("after-recreate"); v != nil {
					fail(v, i)
					return
				}
			}
			mgmt = true
		case "setPublicNamespaces":
			// the way a client changes a dataset's public namespaces (also to none): it stores the dataset's
			// meta-entity, with the new list, in core.Dataset
			mgmt = true
			if r.H.Dataset(op.DS) != nil {
				info, err := r.H.Store.NamespaceManager.GetDatasetNamespaceInfo()
				if err == nil {
					me, err := r.H.Store.GetEntity(info.DatasetPrefix+":"+op.DS, []string{"core.Dataset"}, true)
					if err == nil && me != nil {
						l := []interface{}{}
						var pub []string
						for _, x := range op.A {
							l = append(l, x)
							pub = append(pub, fmt.Sprint(x))
						}
						me.Properties[info.PublicNamespacesKey] = l
						if op.M["viaTxn"] == true {
							// ... or names core.Dataset in a transaction (POST /transactions)
							werr = r.H.Store.ExecuteTransaction(&server.Transaction{DatasetEntities: map[string][]*server.Entity{"core.Dataset": {me}}})
							r.Stats["public_namespaces_set_by_transaction"]++
						} else {
							werr = r.H.Dataset("core.Dataset").StoreEntities([]*server.Entity{me})
						}
						if werr == nil {
							st := r.settings[op.DS]
							st.Public = pub
							r.settings[op.DS] = st
							r.Stats["public_namespaces_set"]++
						}
					}
				}
			}
		case "renameDataset":
			_, werr = r.H.Dsm.UpdateDataset(op.DS, &server.UpdateDatasetConfig{ID: op.DS2})
			if werr == nil {
				for _, g := range r.grabbed {
					if g.cur == op.DS {
						g.cur = op.DS2
					}
				}
				r.settings[op.DS2] = r.settings[op.DS]
				delete(r.settings, op.DS)
			}
			mgmt = true
		case "gc":
			werr = server.NewGarbageCollector(r.H.Store, r.H.Env).Cleandeleted()
			mgmt = true
			r.Stats["gc_runs"]++
			if werr == nil {
				// the paged queries that were open when a dataset was deleted are followed once more, now that the
				// collector has physically removed the deleted dataset's rows (the one their tokens name among them)
				for _, kp := range r.keptPaged {
					if v := r.continuePagedAfterDelete(kp.victim, kp.open); v != nil {
						v.Signature += ":after-gc"
						fail(v, i)
						return
					}
				}
				r.keptPaged = nil
			}
		case "resetStore":
			// DELETE /datasets: the store is wiped and comes back as a new store (new storage id); the hub is
			// restarted on it. Whatever sits in the backup location belongs to the old store from now on
			if err := r.H.Store.Delete(); err != nil {
				fail(viol(sc.Property, "reset", "store-delete-failed", "%v", err), i)
				return
			}
			if v := r.restart(); v != nil {
				fail(v, i)
				return
			}
			r.M = NewModel()
			for _, d := range sc.Datasets {
				if _, err := r.H.Dsm.CreateDataset(d, nil); err != nil {
					fail(viol(sc.Property, "reset", "create-after-reset-failed", "%v", err), i)
					return
				}
				r.M.Create(d)
			}
			if r.backupDir != "" && r.atBackup != nil {
				r.locationForeign = true
			}
			r.atBackup = nil
			r.backupMgr = nil
			r.grabbed = map[string]*grabbedDS{}
			// a new store numbers its datasets from the start again
			r.deletedIDs = map[uint32]bool{}
			r.seenDsIDs = map[uint32]string{}
			r.incarnation = map[string]int{}
			r.settings = map[string]dsSettings{}
			r.fp = FilesFingerprint(r.H.Dir)
			r.walEpochStart = i + 1
			r.Stats["store_resets"]++
			mgmt = true
		case "restart":
			if v := r.restart(); v != nil {
				fail(v, i)
				return
			}
			mgmt = true
			r.fp = FilesFingerprint(r.H.Dir)
			r.walEpochStart = i + 1
			r.grabbed = map[string]*grabbedDS{}
			r.backupMgr = nil // a restarted hub builds a new BackupManager, which reloads its cursor
			if sc.Property == "C13" {
				if v := ObserveNS(r.H, r.mem, r.writtenCuries(r.H), ":after-restart"); v != nil {
					fail(v, i)
					return
				}
			}
		default:
			fail(viol(sc.Property, "harness", "invalid", "unknown op kind %q", op.K), i)
			return
		}
		if werr != nil && op.M != nil && op.M["mayReject"] == true {
			// a batch the store is free to refuse (too large for one transaction, or carrying an entity it must refuse):
			// like an injected failure, it must then be entirely absent
			r.Stats["oversized_batches_refused"]++
			if op.M["wide"] == true {
				// ... nor may it leave index entries behind: nothing refers to the targets of its wide reference
				for _, k := range []int{0, 1, 999, 1000, 1001, 1199} {
					t := r.H.curie(fmt.Sprintf("%swt%04d", ExE, k))
					from, err := r.H.Store.ToRelatedFrom([]string{t}, "*", true, nil, time.Now().UnixNano())
					if err != nil || len(from) == 0 || from[0] == nil {
						continue
					}
					res, err := r.H.Store.GetManyRelatedEntitiesAtTime(from, 0, true)
					if err == nil && len(res.Relations) > 0 {
						fail(viol(sc.Property, "failed-write-visible", "refused-transaction-left-index-entries", "a transaction that was refused as a whole left relationship index entries behind: an incoming query for %s returns %d relation(s)", shortURI(r.H.expand(t)), len(res.Relations)), i)
						return
					}
				}
				r.Stats["refused_wide_transactions"]++
			}
		} else if werr != nil && !errors.Is(werr, errInjected) {
			fail(viol(sc.Property, "write", "write-rejected", "op %d (%s) failed: %v", i, op.K, werr), i)
			return
		}
		if werr == nil && mgmt {
			r.applied[i] = true
			switch op.K {
			case "deleteDataset":
				r.M.Drop(op.DS)
			case "createDataset":
				r.M.Create(op.DS)
				if d := r.H.Dataset(op.DS); d != nil {
					if r.seenDsIDs[d.InternalID] != "" && r.seenDsIDs[d.InternalID] != op.DS+"#"+fmt.Sprint(r.incarnation[op.DS]) {
						fail(viol(sc.Property, "dataset-id", "internal-dataset-id-reused", "dataset %s got internal id %d which belonged to %s", op.DS, d.InternalID, r.seenDsIDs[d.InternalID]), i)
						return
					}
				}
			case "renameDataset":
				r.M.Rename(op.DS, op.DS2)
			}
			r.noteDatasetIDs()
			r.Stats["mgmt_ops"]++
			r.ev("%s ok", op.K)
			if v := r.checkAgainst(r.H, r.M); v != nil {
				v.Signature = "after-" + op.K + ":" + v.Signature
				fail(v, i)
				return
			}
			if op.K == "gc" {
				if v := rawNoDatasetKeys(r.H, r.deletedIDs, sc.Property); v != nil {
					fail(v, i)
					return
				}
			}
		} else if werr == nil {
			r.applied[i] = true
			switch op.K {
			case "batch":
				r.M.Batch(op.DS, op.Ents)
			default:
				for _, p := range op.Parts {
					r.M.Batch(p.DS, p.Ents)
				}
			}
			r.Stats["commits"]++
			r.ev("%s ok", op.K)
		} else if mgmt {
			fail(viol(sc.Property, "write", "mgmt-op-rejected", "op %d (%s %s) failed: %v", i, op.K, op.DS, werr), i)
			return
		} else {
			r.ev("%s failed(injected)", op.K)
			// a rejected write must be entirely absent
			for _, n := range touched {
				if n == "core.Dataset" {
					continue // judged by checkAgainst below (lookups only: the hub keeps its own entities there)
				}
				if v := CheckLatest(r.H, r.M, n, r.Pool, nil); v != nil {
					v.Oracle, v.Signature = "failed-write-visible", "after-injected-error:"+v.Signature
					fail(v, i)
					return
				}
				if v := CheckFeed(r.H, r.M, n, nil); v != nil {
					v.Oracle, v.Signature = "failed-write-visible", "after-injected-error:"+v.Signature
					fail(v, i)
					return
				}
			}
		}
		if sc.Property == "C19" {
			r.Stats["catalogue_checks"]++
			if v := CheckCatalogue(r.H, r.settings); v != nil {
				v.Signature = "after-" + op.K + ":" + v.Signature
				fail(v, i)
				return
			}
		}
		if sc.Property == "C13" {
			for _, e := range op.Ents {
				if werr == nil {
					r.noteWritten(e)
				}
			}
			if v := ObserveNS(r.H, r.mem, r.writtenCuries(r.H), ""); v != nil {
				fail(v, i)
				return
			}
		}
		r.memAfter = append(r.memAfter, r.mem.Clone())
		r.models = append(r.models, r.M.Clone())
		r.walEnds = append(r.walEnds, WalEnd(r.H.Dir))
	}
	r.curOp = len(sc.Ops)
	// the live hub must itself be consistent with the acknowledged history
	if v := r.checkAgainst(r.H, r.M); v != nil {
		v.Signature = "no-crash:" + v.Signature
		fail(v, len(sc.Ops))
		return
	}
	// WAL-prefix crash states, all derived from one copy of the final directory
	walOK := FilesFingerprint(r.H.Dir) == r.fp
	if !walOK {
		r.Stats["wal_cuts_skipped_files_changed"]++
	}
	type cut struct {
		op   int
		frac int
	}
	var cuts []cut
	for _, a := range sc.Cuts {
		cuts = append(cuts, cut{op: int(a[0]), frac: int(a[1])})
	}
	if walOK && len(cuts) > 0 {
		final := NewDir("final")
		if err := CopyDirSparse(r.H.Dir, final); err == nil {
			sort.Slice(cuts, func(i, j int) bool {
				if cuts[i].op != cuts[j].op {
					return cuts[i].op < cuts[j].op
				}
				return cuts[i].frac < cuts[j].frac
			})
			for _, c := range cuts {
				if c.op < r.walEpochStart || c.op >= len(sc.Ops) || len(r.states) >= r.maxSnap+12 {
					continue
				}
				a, b := r.walEnds[c.op], r.walEnds[c.op+1]
				var x int64
				switch {
				case c.frac >= 1000:
					x = b
				case c.frac == 999:
					x = b - 1
				default:
					x = a + (b-a)*int64(c.frac)/1000
				}
				if x < a {
					x = a
				}
				d := NewDir("walcut")
				if err := CopyDirSparse(final, d); err != nil {
					continue
				}
				if err := CutWal(d, x); err != nil {
					os.RemoveAll(d)
					continue
				}
				cs := &crashState{dir: d, desc: fmt.Sprintf("wal byte %d (op %d %s wrote bytes %d..%d, cut at %d/1000)", x, c.op, sc.Ops[c.op].K, a, b, c.frac),
					class: "wal:" + sc.Ops[c.op].K, inflight: c.op, acked: c.op}
				if x >= b {
					cs.inflight, cs.acked = -1, c.op+1
				}
				cs.mem = r.memAfter[cs.acked].Clone()
				r.Stats["fault_crash_at_wal_byte"]++
				r.states = append(r.states, cs)
			}
			os.RemoveAll(final)
		}
	}
	for _, cs := range r.states {
		if v := r.verifyState(cs); v != nil {
			fail(v, cs.acked)
			return
		}
	}
	r.states = nil
	return
}

func isCrashable(name string) bool {
	for _, p := range dsmPoints {
		if p == name {
			return true
		}
	}
	for _, p := range crashablePoints {
		if p == name {
			return true
		}
	}
	return false
}

func opDesc(sc *Scenario, i int) string {
	if i < 0 || i >= len(sc.Ops) {
		return "none"
	}
	op := sc.Ops[i]
	return fmt.Sprintf("op %d %s %s%s", i, op.K, op.DS, op.DS2)
}

// postCrashDatasetProbe creates, fills and deletes a new dataset on a reopened crash state: the
// new dataset must get an internal id nobody else has or had, and neither its creation, its
// content nor its deletion may change what the other datasets show.
func (r *CrashRun) postCrashDatasetProbe(h *Hub, m *Model, cs *crashState) *Violation {
	const probe = "zzprobe"
	time.Sleep(time.Nanosecond)
	d, err := h.Dsm.CreateDataset(probe, nil)
	if err != nil || d == nil {
		return viol("C07", "post-crash-dataset", "create-rejected@"+cs.class, "after crash at %s a new dataset cannot be created: %v", cs.desc, err)
	}
	for _, n := range h.Store.VerifDatasetNames() {
		if o := h.Dataset(n); o != nil && n != probe && o.InternalID == d.InternalID {
			return viol("C07", "post-crash-dataset", "internal-dataset-id-shared@"+cs.class, "after crash at %s the new dataset got internal id %d, which dataset %s already has", cs.desc, d.InternalID, n)
		}
	}
	if h.Store.VerifDeletedDatasets()[d.InternalID] {
		return viol("C07", "post-crash-dataset", "internal-dataset-id-of-deleted@"+cs.class, "after crash at %s the new dataset got internal id %d of a deleted dataset", cs.desc, d.InternalID)
	}
	ents := []Ent{{"id": MkE + "probe1", "props": map[string]any{MkS + "a0": "p"}, "refs": map[string]any{}}}
	if len(r.Pool) > 0 {
		ents = append(ents, Ent{"id": r.Pool[0], "props": map[string]any{MkS + "a0": "probe"}, "refs": map[string]any{}})
	}
	if err := d.StoreEntities(h.Entities(ents)); err != nil {
		return viol("C07", "post-crash-dataset", "write-rejected@"+cs.class, "after crash at %s: %v", cs.desc, err)
	}
	mm := m.Clone()
	mm.Create(probe)
	mm.Batch(probe, ents)
	if v := r.checkAgainst(h, mm); v != nil {
		v.Signature = "post-crash-create:" + v.Signature + "@" + cs.class
		v.Message = fmt.Sprintf("after crash at %s and creating a new dataset: %s", cs.desc, v.Message)
		return v
	}
	if err := h.Dsm.DeleteDataset(probe); err != nil {
		return viol("C07", "post-crash-dataset", "delete-rejected@"+cs.class, "after crash at %s: %v", cs.desc, err)
	}
	if v := r.checkAgainst(h, m); v != nil {
		v.Signature = "post-crash-delete:" + v.Signature + "@" + cs.class
		v.Message = fmt.Sprintf("after crash at %s, creating and deleting a new dataset: %s", cs.desc, v.Message)
		return v
	}
	return nil
}

func (r *CrashRun) noteWritten(e Ent) {
	c := CanonSpec(e)
	r.written[c.ID] = true
	for _, pt := range refTargets(c) {
		r.written[pt[0]] = true
		r.written[pt[1]] = true
	}
}

// writtenCuries gives the CURIEs of every identifier written so far (no new namespaces are
// introduced: these were all compacted when they were written).
func (r *CrashRun) writtenCuries(h *Hub) []string {
	var out []string
	for _, u := range sortedKeys(r.written) {
		if c, err := h.Store.GetNamespacedIdentifier(u, nil); err == nil && c != "" {
			out = append(out, c)
		}
	}
	return out
}

// --- C20: backups ---------------------------------------------------------------------------

func (r *CrashRun) backupEnv() {
	if r.backupDir == "" {
		r.backupDir = NewDir("backup")
		os.RemoveAll(r.backupDir) // the manager creates it
	}
	r.H.Env.BackupLocation = r.backupDir
	r.H.Env.BackupSchedule = "*/5 * * * *"
}

func (r *CrashRun) runBackup() (v *Violation) {
	r.backupEnv()
	if r.backupMgr == nil {
		bm, err := server.VerifNewBackupManager(r.H.Store, r.H.Env)
		if err != nil {
			return viol("C20", "backup", "manager-init", "NewBackupManager: %v", err)
		}
		r.backupMgr = bm
		r.Stats["backup_managers"]++
	}
	start := r.M.Clone()
	if r.locationForeign {
		// the location now carries another store's id: this hub must leave it alone (it stops by panicking)
		before := dirFingerprint(r.backupDir)
		func() {
			defer func() { _ = recover() }()
			r.backupMgr.Run()
		}()
		r.Stats["backup_runs_against_foreign_location"]++
		if after := dirFingerprint(r.backupDir); after != before {
			return viol("C20", "backup", "overwrote-foreign-backup", "the backup location was taken over by another store after this hub's last run, and the next run changed it:\nbefore %s\nafter  %s", before, after)
		}
		return nil
	}
	defer func() {
		if rec := recover(); rec != nil {
			v = viol("C20", "backup", "backup-run-panicked", "BackupManager.Run panicked: %v", rec)
		}
	}()
	died := ""
	if r.Stats["backup_runs"] == 0 && hooks.sched == nil {
		// (sequential profile only: under the scheduler the second hub's hook events would be taken for the
		// writers' own)
		// what the location looks like if the process dies during this hub's very first run, after the data has
		// been written: it is this store's location from then on, whether or not the run came to its end
		prev := hooks.onPoint
		hooks.onPoint = func(owner any, name string, h int64) {
			if name == "backup.afterData" && died == "" {
				d := NewDir("backupdied")
				if err := CopyDirSparse(r.backupDir, d); err == nil {
					died = d
				}
			}
			if prev != nil {
				prev(owner, name, h)
			}
		}
		defer func() { hooks.onPoint = prev }()
	}
	r.backupMgr.Run()
	r.atBackup = start
	r.Stats["backup_runs"]++
	r.ev("backup")
	if died != "" {
		defer os.RemoveAll(died)
		r.Stats["first_backup_runs_cut_short"]++
		if fv := r.foreignBackupAt(died, false); fv != nil {
			fv.Signature += ":after-first-run-died"
			fv.Message = "this hub's first backup run died after it had written its data; " + fv.Message
			return fv
		}
	}
	return nil
}

// restoreCheck loads the backup location into an empty store and compares it with the source
// hub as it was when the last completed backup run started.
func (r *CrashRun) restoreCheck() *Violation {
	if r.atBackup == nil || r.locationForeign {
		return nil
	}
	dir := NewDir("restore")
	defer os.RemoveAll(dir)
	f, err := os.Open(r.backupDir + "/datahub-backup.kv")
	if err != nil {
		return viol("C20", "restore", "no-backup-file", "backup file missing: %v", err)
	}
	opts := badger.DefaultOptions(dir)
	opts.Logger = nil
	opts.MemTableSize = 8 << 20
	opts.ValueLogFileSize = 1 << 20
	opts.BlockCacheSize = 1 << 20
	db, err := badger.Open(opts)
	if err != nil {
		f.Close()
		return viol("C20", "harness", "invalid", "open restore target: %v", err)
	}
	err = db.Load(f, 16)
	f.Close()
	cerr := db.Close()
	if err != nil || cerr != nil {
		return viol("C20", "restore", "load-failed", "loading the backup failed: %v %v", err, cerr)
	}
	h, err := OpenHub(dir, r.Sc.Knobs)
	if err != nil {
		return viol("C20", "restore", "restored-store-does-not-open", "%v", err)
	}
	defer h.Close()
	r.Stats["restores_checked"]++
	if v := r.checkAgainst(h, r.atBackup); v != nil {
		v.Property = "C20"
		v.Signature = "restored:" + v.Signature
		v.Message = "the restored backup differs from the source hub at the start of the last completed backup run: " + v.Message
		return v
	}
	return nil
}

func dirFingerprint(dir string) string {
	ents, _ := os.ReadDir(dir)
	var parts []string
	for _, e := range ents {
		b, _ := os.ReadFile(dir + "/" + e.Name())
		parts = append(parts, fmt.Sprintf("%s:%d:%x", e.Name(), len(b), sha256.Sum256(b)))
	}
	sort.Strings(parts)
	return strings.Join(parts, "|")
}

// foreignBackup points a second, different store at the backup location: it must not be written.
func (r *CrashRun) foreignBackup() (v *Violation) {
	if r.backupDir == "" || r.atBackup == nil || r.locationForeign {
		return nil
	}
	return r.foreignBackupAt(r.backupDir, r.curOp < len(r.Sc.Ops) && r.Sc.Ops[r.curOp].N == 1)
}

func (r *CrashRun) foreignBackupAt(location string, staleSource bool) (v *Violation) {
	time.Sleep(time.Nanosecond)
	other, err := OpenHub(NewDir("otherhub"), r.Sc.Knobs)
	if err != nil {
		return viol("C20", "harness", "invalid", "%v", err)
	}
	defer func() {
		other.Close()
		os.RemoveAll(other.Dir)
	}()
	if ds, err := other.Dsm.CreateDataset("foreign", nil); err == nil && ds != nil {
		_ = ds.StoreEntities(other.Entities([]Ent{{"id": MkE + "foreign", "props": map[string]any{}, "refs": map[string]any{}}}))
	}
	other.Env.BackupLocation = location
	other.Env.BackupSchedule = "*/5 * * * *"
	if staleSource {
		// stale settings of a hub that was moved to a new store: the rsync source directory still names the old
		// store (it plays no part in a native backup, which always dumps the store that is open)
		other.Env.BackupSourceLocation = r.H.Dir
		r.Stats["foreign_backup_with_stale_source_location"]++
	}
	before := dirFingerprint(location)
	bm, err := server.VerifNewBackupManager(other.Store, other.Env)
	if err == nil && bm != nil {
		func() {
			defer func() { _ = recover() }() // refusing by panic is the documented behaviour
			bm.Run()
		}()
	}
	r.Stats["foreign_backup_attempts"]++
	if after := dirFingerprint(location); after != before {
		return viol("C20", "backup", "foreign-store-overwrote-backup", "a store with a different storage id ran its backup against this location and changed it:\nbefore %s\nafter  %s", before, after)
	}
	return nil
}

// takeoverBackupLocation replaces the content of the backup location by the backup of another
// store (as happens when two hubs are pointed at one bucket, or a volume is re-used).
func (r *CrashRun) takeoverBackupLocation() *Violation {
	if r.backupDir == "" || r.atBackup == nil {
		return nil
	}
	time.Sleep(time.Nanosecond)
	other, err := OpenHub(NewDir("otherhub"), r.Sc.Knobs)
	if err != nil {
		return viol("C20", "harness", "invalid", "%v", err)
	}
	defer func() {
		other.Close()
		os.RemoveAll(other.Dir)
	}()
	if ds, err := other.Dsm.CreateDataset("foreign", nil); err == nil && ds != nil {
		_ = ds.StoreEntities(other.Entities([]Ent{{"id": MkE + "foreign", "props": map[string]any{}, "refs": map[string]any{}}}))
	}
	tmp := NewDir("otherbackup")
	os.RemoveAll(tmp)
	other.Env.BackupLocation = tmp
	other.Env.BackupSchedule = "*/5 * * * *"
	bm, err := server.VerifNewBackupManager(other.Store, other.Env)
	if err != nil {
		return viol("C20", "harness", "invalid", "%v", err)
	}
	bm.Run()
	os.RemoveAll(r.backupDir)
	if err := os.Rename(tmp, r.backupDir); err != nil {
		return viol("C20", "harness", "invalid", "%v", err)
	}
	r.locationForeign = true
	r.atBackup = nil
	r.Stats["location_takeovers"]++
	return nil
}


// pagedOpen is a paged relationship query a client began before a dataset was deleted.
type keptPaged struct {
	victim string
	open   []*pagedOpen
}

type pagedOpen struct {
	start   string
	inverse bool
	scope   []string
	cont    []*server.RelatedFrom
	victim  map[relPair]bool // what the dataset about to be deleted contributes to the answer
	first   map[relPair]int  // what the first page (read before the delete) returned
	allowed map[relPair]bool // what the surviving datasets of the scope held when the dataset was deleted (the query's instant lies before that)
	judged  bool
	heldBy  map[string]map[relPair]bool // per surviving dataset: what it held for the start entity when first judged
	dsIDs   map[string]uint32 // internal ids of the surviving datasets when first judged (a name may be given to a new dataset later)
}

// startPagedBeforeDelete starts page-size-1 wildcard queries scoped to the dataset about to be deleted (and
// one more dataset) for every identifier written so far, and keeps their continuation tokens.
func (r *CrashRun) startPagedBeforeDelete(victim string) []*pagedOpen {
	if r.Sc.Property != "C07" || r.H.Dataset(victim) == nil {
		return nil
	}
	var out []*pagedOpen
	scopes := [][]string{{victim}}
	for _, n := range r.M.Names() {
		if n != victim {
			scopes = append(scopes, []string{victim, n})
			break
		}
	}
	scopes = append(scopes, nil) // and unscoped
	pool, _ := collectNames(r.Sc)
	for _, id := range pool {
		c := r.H.curie(id)
		for _, inv := range []bool{false, true} {
			for _, scope := range scopes {
				from, err := r.H.Store.ToRelatedFrom([]string{c}, "*", inv, scope, time.Now().UnixNano())
				if err != nil || len(from) == 0 || from[0] == nil {
					continue
				}
				first, err := r.H.Store.GetManyRelatedEntitiesAtTime(from, 1, true)
				if err != nil || len(first.Cont) == 0 {
					continue
				}
				po := &pagedOpen{start: r.H.expand(c), inverse: inv, scope: scope, cont: first.Cont}
				po.first, _ = relSet(r.H, first.Relations)
				if inv {
					po.victim = r.M.In(po.start, "*", []string{victim})
				} else {
					po.victim = r.M.Out(po.start, "*", []string{victim})
				}
				out = append(out, po)
				if len(out) >= 18 {
					return out
				}
			}
		}
	}
	return out
}

// continuePagedAfterDelete follows the continuation tokens after the delete: nothing that was written to the
// deleted dataset may come back, whatever the token says.
func (r *CrashRun) continuePagedAfterDelete(victim string, open []*pagedOpen) *Violation {
	for _, pq := range open {
		var survivors []string
		for _, n := range pq.scope {
			if n != victim && r.M.DS[n] != nil {
				survivors = append(survivors, n)
			}
		}
		if pq.scope == nil {
			for _, n := range r.M.Names() {
				if n != victim {
					survivors = append(survivors, n)
				}
			}
		}
		later := pq.judged // followed again after more history: only what must still come is judged
		if pq.judged {
			var same []string
			for _, n := range survivors {
				if ds := r.H.Dataset(n); ds != nil && pq.dsIDs[n] == ds.InternalID {
					same = append(same, n)
				}
			}
			survivors = same
		} else {
			pq.dsIDs = map[string]uint32{}
			pq.heldBy = map[string]map[relPair]bool{}
			for _, n := range survivors {
				if ds := r.H.Dataset(n); ds != nil {
					pq.dsIDs[n] = ds.InternalID
				}
				if !pq.inverse {
					pq.heldBy[n] = r.M.Out(pq.start, "*", []string{n})
				}
			}
		}
		seen := map[relPair]bool{}
		for p := range pq.first {
			seen[p] = true
		}
		complete := true
		allowed := map[relPair]bool{}
		if pq.judged {
			// followed again later: what the surviving datasets held then and (datasets may have been deleted, entities
			// rewritten since) still hold now
			if !pq.inverse {
				for _, n := range survivors {
					now := r.M.Out(pq.start, "*", []string{n})
					for p := range pq.heldBy[n] {
						if now[p] {
							allowed[p] = true
						}
					}
				}
			}
		} else if len(survivors) > 0 {
			if pq.inverse {
				allowed = r.M.In(pq.start, "*", survivors)
			} else {
				allowed = r.M.Out(pq.start, "*", survivors)
			}
		}
		if !pq.judged {
			pq.allowed, pq.judged = allowed, true
		}
		cont := pq.cont
		for guard := 0; len(cont) > 0 && guard < 100; guard++ {
			res, err := r.H.Store.GetManyRelatedEntitiesAtTime(cont, 1, true)
			if err != nil {
				complete = false
				break // refusing a token of a deleted dataset is fine
			}
			got, _ := relSet(r.H, res.Relations)
			for p := range got {
				seen[p] = true
				// judged: pairs the deleted dataset contributed and no surviving dataset of the scope ever held (a pair
				// some version of a surviving dataset held may come back through the open inverse-scan finding KF-C03-1)
				if !later && !allowed[p] && pq.victim[p] && !everHeld(r.M, survivors, pq.start, pq.inverse, p) {
					dir := "out"
					if pq.inverse {
						dir = "in"
					}
					return viol("C07", "deleted-dataset", "continued-page-returns-deleted-data:"+dir, "a relationship query for %s (%s, scope %v) paged with limit 1 was started before dataset %s was deleted; its continuation returned %s->%s afterwards, which only the deleted dataset held (surviving scope allows %s)", shortURI(pq.start), dir, pq.scope, victim, shortURI(p[0]), shortURI(p[1]), fmtPairs(allowed))
				}
			}
			cont = res.Cont
		}
		if complete && !pq.inverse && len(survivors) > 0 {
			// the other datasets are unaffected by the delete: what they hold for the start entity has to come, on
			// the first page or on one of the continued ones (outgoing direction only: see KF-C03-1 for the other)
			var lost []string
			for p := range allowed {
				if !seen[p] {
					lost = append(lost, shortURI(p[0])+"->"+shortURI(p[1]))
				}
			}
			sort.Strings(lost)
			if len(lost) > 0 {
				return viol("C07", "deleted-dataset", "continued-pages-lose-other-datasets-relations:out", "an outgoing relationship query for %s (scope %v) paged with limit 1 was started before dataset %s was deleted; followed to its end afterwards it never returned %v, which the surviving datasets %v hold", shortURI(pq.start), pq.scope, victim, lost, survivors)
			}
			r.Stats["paged_across_delete_complete"]++
		}
		r.Stats["paged_across_delete"]++
	}
	return nil
}

// everHeld tells whether any version in the history of the given datasets carried the relation.
func everHeld(m *Model, datasets []string, start string, inverse bool, p relPair) bool {
	for _, n := range datasets {
		d := m.DS[n]
		if d == nil {
			continue
		}
		for _, v := range d.Versions {
			for _, pt := range refTargets(v.C) {
				if inverse && pt[0] == p[0] && pt[1] == start && v.C.ID == p[1] {
					return true
				}
				if !inverse && v.C.ID == start && pt == p {
					return true
				}
			}
		}
	}
	return false
}


// listWithOldTokens presents listing tokens that were handed out before their dataset was deleted to every
// dataset that exists now (the re-created namesake among them): a page read with such a token may hold what the
// dataset asked holds, never what only the deleted dataset held.
func (r *CrashRun) listWithOldTokens(when string) *Violation {
	for victim, lt := range r.listTokens {
		for _, n := range r.M.Names() {
			ds := r.H.Dataset(n)
			d := r.M.DS[n]
			if ds == nil || d == nil {
				continue
			}
			res, err := ds.GetEntities(lt.token, 0)
			if err != nil {
				continue // refusing the token is fine
			}
			r.Stats["listings_with_old_token"]++
			for _, e := range res.Entities {
				c := r.H.Canon(e)
				if cur := d.LatestOf(c.ID); cur != nil && cur.String() == c.String() {
					continue
				}
				return viol("C07", "deleted-dataset", "old-listing-token-returns-deleted-data:"+when, "a client read the first page of the listing of %s before it was deleted; the token of the next page, presented to dataset %s (%s), returns %s, which that dataset does not hold", victim, n, when, c)
			}
		}
	}
	return nil
}
