package verifsim

import (
	"github.com/mimiro-io/datahub/internal/server"
	"bytes"
	"encoding/json"
	"fmt"
	"io"
	"net/http/httptest"
	"os"
	"strings"
	"time"
)

// HTTP-level concurrent writers (profile C05h): 2-3 clients post entity payloads (POST /datasets/:ds/entities) and
// transactions (POST /transactions) through the real router at the same time. Every client declares its own
// namespace context (the same prefix names mean different namespaces from client to client), and its request body
// arrives in pieces: the reader the handler parses from gives control back to the cooperative scheduler between two
// pieces, so that a request is parsed and stored while others are half way through theirs (a slow upload). Oracle:
// every request is answered 200 and, at quiescence, every dataset holds exactly the serial replay of the
// acknowledged payloads - as posted, under the context they were posted with - in the observed commit order.

type yieldingBody struct {
	data  []byte
	pos   int
	chunk int
	owner any
}

func (b *yieldingBody) Read(p []byte) (int, error) {
	if b.pos >= len(b.data) {
		return 0, io.EOF
	}
	if b.pos > 0 {
		hooks.Point(b.owner, "harness.body") // the next piece of the upload has not arrived yet
	}
	n := b.chunk
	if n > len(p) {
		n = len(p)
	}
	if b.pos+n > len(b.data) {
		n = len(b.data) - b.pos
	}
	copy(p, b.data[b.pos:b.pos+n])
	b.pos += n
	return n, nil
}

func genC05h(g *G, sc *Scenario, tier string) {
	if g.P(0.02) {
		// a listing of more than a thousand entities read in one request while another client updates the first and the
		// last entity of the dataset in one batch: the page shows both updates or neither
		sc.Datasets = []string{"big"}
		sc.Knobs["bigPage"] = 1100
		sc.Knobs["web.batchSize"] = 10
		sc.Tasks = [][]Op{
			{{K: "listAll", DS: "big"}},
			{{K: "payload", DS: "big", N: 0, Limit: 100000, Ents: []Ent{
				{"id": MkE + "b0000", "props": map[string]any{MkS + "v": "2"}, "refs": map[string]any{}},
				{"id": MkE + "b1099", "props": map[string]any{MkS + "v": "2"}, "refs": map[string]any{}}}}},
		}
		if g.P(0.5) {
			sc.Tasks = append(sc.Tasks, []Op{{K: "listAll", DS: "big"}})
		}
		sc.Knobs["schedSeed"] = int64(g.r.Uint64() >> 1)
		sc.Knobs["preemptPct"] = int64(g.PickInt([]int{50, 80}))
		return
	}
	nds := g.Range(1, 2)
	sc.Datasets = []string{"dsA", "dsB"}[:nds]
	pool := poolNames(MkE, "e", g.Range(2, 4))
	keys := []string{MkS + "a0", MkE + "a0", MkS + "name"}
	nw := g.Range(2, 3)
	flip := g.P(0.4)
	if flip {
		keys = keys[:1]
	}
	for w := 0; w < nw; w++ {
		var ops []Op
		for i, n := 0, g.Range(1, 3); i < n; i++ {
			mark := fmt.Sprintf("c%d.%d", w, i)
			mk := func() []Ent {
				var ents []Ent
				for k := g.Range(1, 3); k > 0; k-- {
					val := mark + "." + fmt.Sprint(k)
					if flip {
						val = g.Pick([]string{"a", "b"}) // the same few values from every client: identical to the current version or not
					}
					if flip && len(ents) > 0 && g.P(0.4) {
						ents = append(ents, cloneEnt(ents[g.Intn(len(ents))])) // the same entity, unchanged, later in the same request
						continue
					}
					e := Ent{"id": g.Pick(pool), "props": map[string]any{g.Pick(keys): val}, "refs": map[string]any{}}
					if g.P(0.4) {
						e["refs"].(map[string]any)[g.Pick([]string{MkS + "p0", MkE + "p0"})] = g.Pick(pool)
					}
					ents = append(ents, e)
				}
				return ents
			}
			// N = context style of this client (c15Context: even / odd swap the meaning of the prefix names)
			if g.P(0.4) {
				var parts []Part
				for _, d := range sc.Datasets {
					if len(parts) == 0 || g.P(0.6) {
						parts = append(parts, Part{DS: d, Ents: mk()})
					}
				}
				ops = append(ops, Op{K: "txn", Parts: parts, N: w, Limit: g.PickInt([]int{7, 16, 40, 100000})})
			} else {
				ops = append(ops, Op{K: "payload", DS: g.Pick(sc.Datasets), Ents: mk(), N: w, Limit: g.PickInt([]int{7, 16, 40, 100000})})
			}
		}
		sc.Tasks = append(sc.Tasks, ops)
	}
	sc.Knobs["web.batchSize"] = int64(g.PickInt([]int{1, 2, 10, 10}))
	sc.Knobs["schedSeed"] = int64(g.r.Uint64() >> 1)
	sc.Knobs["preemptPct"] = int64(g.PickInt([]int{20, 50, 80}))
}

func RunC05hScenario(sc *Scenario) (vd *Verdict) {
	vd = &Verdict{Verdict: "ok", Property: sc.Property, Profile: sc.Profile, Seed: sc.Seed}
	startT := time.Now()
	stats := map[string]int64{}
	secDir := NewDir("sec")
	h, err := OpenWebHub(NewDir("webhub"), secDir, sc.Knobs, false)
	if err != nil {
		vd.Verdict, vd.Message = "error", err.Error()
		return
	}
	defer func() {
		hooks.sched = nil
		_ = h.Close()
		os.RemoveAll(h.Dir)
		os.RemoveAll(secDir)
	}()
	fail := func(v *Violation) {
		vd.Verdict = "violation"
		vd.Property, vd.Oracle, vd.Signature, vd.Message = sc.Property, v.Oracle, v.Signature, v.Message
	}
	m := NewModel()
	for _, d := range sc.Datasets {
		if _, err := h.Dsm.CreateDataset(d, nil); err != nil {
			vd.Verdict, vd.Message = "error", err.Error()
			return
		}
		m.Create(d)
	}
	if n := int(sc.Knob("bigPage", 0)); n > 0 {
		var ents []Ent
		for k := 0; k < n; k++ {
			ents = append(ents, Ent{"id": fmt.Sprintf("%sb%04d", MkE, k), "props": map[string]any{MkS + "v": "1"}, "refs": map[string]any{}})
		}
		if err := h.Dataset("big").StoreEntities(h.Entities(ents)); err != nil {
			vd.Verdict, vd.Message = "error", err.Error()
			return
		}
		m.Batch("big", ents)
	}
	type hreq struct {
		op        *Op
		task, idx int
		code      int
		body      string
		commits   int
		done      bool
	}
	s := NewSched()
	s.schedule = sc.Schedule
	if len(sc.Schedule) == 0 {
		if seed, ok := sc.Knobs["schedSeed"]; ok {
			s.gen = NewG(uint64(seed))
			s.pPreempt = float64(sc.Knob("preemptPct", 20)) / 100
		}
	}
	for _, d := range sc.Datasets {
		s.SetName(h.Dataset(d), d)
	}
	s.SetName(h.Dataset("core.Dataset"), "core.Dataset")
	type hcommit struct {
		rq    *hreq
		chunk int
	}
	var commitOf []hcommit
	core := any(h.Dataset("core.Dataset"))
	s.OnPoint = func(t *Task, name string) {
		rq, _ := t.Cur.(*hreq)
		if rq == nil {
			return
		}
		switch name {
		case "ExecuteTransaction.afterDataCommit":
			commitOf = append(commitOf, hcommit{rq, 0})
			rq.commits++
		case "StoreEntities.afterDataCommit":
			// the item counter update of core.Dataset passes the same point with core.Dataset's lock held
			for k := range t.held {
				if k.kind == "dataset.write" && k.obj == core {
					return
				}
			}
			if rq.op.K == "payload" {
				commitOf = append(commitOf, hcommit{rq, rq.commits})
				rq.commits++
			}
		}
	}
	hooks.sched = s
	var pageViolation *Violation
	var all []*hreq
	for ti := range sc.Tasks {
		var rs []*hreq
		for oi := range sc.Tasks[ti] {
			rs = append(rs, &hreq{op: &sc.Tasks[ti][oi], task: ti, idx: oi})
		}
		all = append(all, rs...)
		var tk *Task
		tk = s.Spawn(fmt.Sprintf("T%d", ti), h.Store.VerifDB(), func() {
			for _, rq := range rs {
				op := rq.op
				if op.K == "listAll" {
					tk.Cur = rq
					code, body := h.Do("GET", "/datasets/"+op.DS+"/entities", nil, nil)
					rq.code, rq.done = code, true
					tk.Cur = nil
					stats["listings"]++
					if code == 200 {
						first, last, n := "", "", 0
						_ = server.NewEntityStreamParser(h.Store).ParseStream(bytes.NewReader(body), func(e *server.Entity) error {
							if e.ID == "@continuation" {
								return nil
							}
							n++
							c := h.Canon(e)
							if strings.HasSuffix(c.ID, "b0000") {
								first = fmt.Sprint(c.Props[ExS+"v"])
							}
							if strings.HasSuffix(c.ID, "b1099") {
								last = fmt.Sprint(c.Props[ExS+"v"])
							}
							return nil
						})
						if first != last && pageViolation == nil {
							pageViolation = viol("C05", "atomic-read", "listing-page-shows-part-of-a-batch", "one GET of the entities of a dataset of %d entities shows entity b0000 with v=%s and entity b1099 with v=%s; another client updated both in one batch while the page was read", n, first, last)
						}
					}
					continue
				}
				var b []byte
				path := "/datasets/" + op.DS + "/entities"
				if op.K == "txn" {
					b, _ = json.Marshal(styledTxn(op.Parts, op.N))
					path = "/transactions"
				} else {
					b, _ = json.Marshal(styledBody(op.Ents, op.N))
				}
				tk.Cur = rq
				req := httptest.NewRequest("POST", path, &yieldingBody{data: b, chunk: op.Limit, owner: h.Store.VerifDB()})
				req.Header.Set("Content-Type", "application/json")
				rec := httptest.NewRecorder()
				h.Full.Web.Echo.ServeHTTP(rec, req)
				rq.code, rq.body = rec.Code, strings.TrimSpace(rec.Body.String())
				rq.done = true
				tk.Cur = nil
				stats["http_posts"]++
			}
		})
	}
	s.ClientsOnly = true
	s.Run()
	hooks.sched = nil
	for k, v := range s.Stats {
		stats[k] = v
	}
	delete(stats, "wild_blocks")
	stats["commits"] = int64(len(commitOf))
	defer func() {
		stats["point_harness.body"] = PointHits()["harness.body"]
		vd.Stats = stats
		vd.TraceHash = s.TraceHash()
		vd.SimNS = int64(time.Since(startT))
		vd.Nontrivial = len(commitOf) >= 2 && s.Stats["preemptions"] >= 1
	}()
	if len(sc.Schedule) == 0 && s.gen != nil {
		sc.Schedule = append([]int(nil), s.Chosen...)
		delete(sc.Knobs, "schedSeed")
	}
	if s.Violation != nil {
		fail(s.Violation)
		return
	}
	bs := int(sc.Knob("web.batchSize", 10))
	if pageViolation != nil {
		fail(pageViolation)
		return
	}
	for _, rq := range all {
		if rq.op.K == "listAll" {
			continue
		}
		if !rq.done {
			fail(viol("C05", "hang", "unfinished-request", "request %d of client %d never returned", rq.idx, rq.task))
			return
		}
		if rq.code != 200 {
			fail(viol("C05", "write", fmt.Sprintf("valid-request-rejected:%d:%s", rq.code, rq.op.K), "client %d request %d (%s) was answered %d %s", rq.task, rq.idx, rq.op.K, rq.code, clip(rq.body)))
			return
		}
		want := 1
		if rq.op.K == "payload" {
			want = (len(rq.op.Ents) + bs - 1) / bs
		}
		if rq.commits != want {
			fail(viol("C05", "serial", "ack-without-commit", "client %d request %d (%s, %d entities, handler batch size %d) was answered 200 after %d commits; its payload makes %d", rq.task, rq.idx, rq.op.K, len(rq.op.Ents), bs, rq.commits, want))
			return
		}
	}
	for _, c := range commitOf {
		if c.rq.op.K == "txn" {
			for _, p := range c.rq.op.Parts {
				m.Batch(p.DS, p.Ents)
			}
		} else {
			lo, hi := c.chunk*bs, (c.chunk+1)*bs
			if hi > len(c.rq.op.Ents) {
				hi = len(c.rq.op.Ents)
			}
			m.Batch(c.rq.op.DS, c.rq.op.Ents[lo:hi])
		}
	}
	pool, _ := collectNames(sc)
	for _, d := range sc.Datasets {
		pages := []int{2}
		if sc.Knob("bigPage", 0) > 0 {
			pages = []int{500}
		}
		if v := CheckLatest(h, m, d, pool, pages); v != nil {
			v.Property, v.Oracle, v.Signature = "C05", "serial", "http:final-latest:"+v.Signature
			v.Message = "after concurrent uploads (each under its own namespace context): " + v.Message
			fail(v)
			return
		}
		if v := CheckFeed(h, m, d, nil); v != nil {
			v.Property, v.Oracle, v.Signature = "C05", "serial", "http:final-feed:"+v.Signature
			v.Message = "after concurrent uploads (each under its own namespace context): " + v.Message
			fail(v)
			return
		}
	}
	stats["final_states_checked"]++
	return
}
