package verifsim

// Sched is the cooperative scheduler for concurrent profiles (filled in by sched_impl.go).
type Sched struct{}

func (s *Sched) acquire(owner any, kind string, obj any) {}
func (s *Sched) release(owner any, kind string, obj any) {}
func (s *Sched) point(owner any, name string)            {}
func (s *Sched) goStart(owner any, name string)          {}
func (s *Sched) access(owner any, obj string, write bool) {}
