package verifsim

import (
	"os"
	"crypto/sha256"
	"encoding/hex"
	"fmt"
	"runtime"
	"sort"
	"strconv"
	"strings"
	"sync"
	"testing/synctest"
	"time"
)

// Cooperative scheduler for concurrent profiles. Tasks are real goroutines; exactly one is
// released at a time and it gives control back only inside a hook (Acquire, Point, Go) or by
// finishing. Which task runs next is a scenario decision (explicit schedule, else PRNG while
// generating, else the default policy "stay on the current task, otherwise lowest id").

type taskState int

const (
	tsParked   taskState = iota // at a Point / Go / initial park: runnable
	tsWaitLock                  // waiting for a modelled lock
	tsRunning                   // released by the scheduler
	tsDone
)

type lockKey struct {
	kind string
	obj  any
}

type Task struct {
	ID      int
	Name    string
	gid     uint64
	state   taskState
	wild    bool // released, not yielded, blocked outside the hooks (timer, channel, wait group)
	at      string
	wantKey lockKey
	wantAt  string
	wake    chan struct{}
	held    map[lockKey]string // lock -> call site
	owner   any
	dead    bool // belongs to a crashed epoch: never released again
	steps   int
	auto    bool
	Cur     any // executor scratch: the operation the task is executing
}

type lockInfo struct {
	holder *Task
	site   string
}

type raceAccess struct {
	task  *Task
	write bool
	locks map[lockKey]bool
	site  string
}

type Sched struct {
	mu         sync.Mutex
	tasks      []*Task
	byGid      map[uint64]*Task
	locks      map[lockKey]*lockInfo
	current    *Task
	yieldCh    chan struct{}
	active     bool
	preempt    map[string]bool // lock kinds whose Acquire always yields
	schedule   []int           // explicit choices (task ids), consumed at choice points
	pos        int
	gen        *G      // non-nil: draw choices and append them to Chosen
	pPreempt   float64 // preemption probability while generating
	Chosen     []int
	trace      []byte
	Steps      int
	MaxSteps   int
	StepCost   time.Duration
	Grace      time.Duration // how long a released task may block outside hooks before others run
	IdleMax    time.Duration // simulated time without progress that counts as a hang
	Stats      map[string]int64
	lockPairs  map[string]bool // observed acquisition order pairs "siteA>siteB"
	deadOwners map[any]bool
	// hooks for the executor
	OnPoint   func(t *Task, name string) // called in the task's goroutine before it parks
	accLog    map[string][]raceAccess
	Races     []string
	names     map[any]string // display names for lock objects
	Violation *Violation
	numbered  int // tasks[:numbered] have their final ids
	// ClientsOnly ends Run when the tasks spawned by the harness are done, whatever the adopted ones do
	ClientsOnly bool
}

func NewSched() *Sched {
	return &Sched{byGid: map[uint64]*Task{}, locks: map[lockKey]*lockInfo{}, yieldCh: make(chan struct{}, 1),
		preempt: map[string]bool{"dataset.write": true, "dsm.lock": true, "raffle.mu": false}, MaxSteps: 20000,
		StepCost: 1, Grace: time.Microsecond, IdleMax: 48 * time.Hour, Stats: map[string]int64{}, lockPairs: map[string]bool{},
		deadOwners: map[any]bool{}, accLog: map[string][]raceAccess{}, names: map[any]string{}}
}

func curGid() uint64 {
	var buf [64]byte
	n := runtime.Stack(buf[:], false)
	// "goroutine 123 ["
	s := string(buf[:n])
	s = strings.TrimPrefix(s, "goroutine ")
	if i := strings.IndexByte(s, ' '); i > 0 {
		id, _ := strconv.ParseUint(s[:i], 10, 64)
		return id
	}
	return 0
}

func callSite(skip int) string {
	// first frame outside verifhook / verifsim
	pcs := make([]uintptr, 12)
	n := runtime.Callers(skip, pcs)
	frames := runtime.CallersFrames(pcs[:n])
	for {
		f, more := frames.Next()
		if !strings.Contains(f.Function, "/verifhook.") && !strings.Contains(f.Function, "/verifsim.") {
			fn := f.Function
			if i := strings.LastIndex(fn, "/"); i >= 0 {
				fn = fn[i+1:]
			}
			return fn
		}
		if !more {
			return "?"
		}
	}
}

func (s *Sched) ev(format string, args ...any) {
	if traceOut {
		fmt.Fprintf(os.Stderr, "EV sched "+format+"\n", args...)
	}
	s.trace = append(s.trace, fmt.Sprintf(format, args...)...)
	s.trace = append(s.trace, '\n')
}

func (s *Sched) TraceHash() string {
	h := sha256.Sum256(s.trace)
	return hex.EncodeToString(h[:8])
}

func (s *Sched) TraceTail(n int) string {
	lines := strings.Split(strings.TrimSpace(string(s.trace)), "\n")
	if len(lines) > n {
		lines = lines[len(lines)-n:]
	}
	return strings.Join(lines, "\n")
}

func (s *Sched) notify() {
	select {
	case s.yieldCh <- struct{}{}:
	default:
	}
}

// Spawn creates a task running fn. Must be called from inside the bubble.
func (s *Sched) Spawn(name string, owner any, fn func()) *Task {
	t := &Task{Name: name, wake: make(chan struct{}), held: map[lockKey]string{}, owner: owner, state: tsParked, at: "start"}
	s.mu.Lock()
	t.ID = len(s.tasks)
	s.tasks = append(s.tasks, t)
	s.mu.Unlock()
	ready := make(chan struct{})
	go func() {
		t.gid = curGid()
		s.mu.Lock()
		s.byGid[t.gid] = t
		s.mu.Unlock()
		close(ready)
		<-t.wake
		defer func() {
			s.mu.Lock()
			t.state = tsDone
			delete(s.byGid, t.gid)
			s.mu.Unlock()
			s.notify()
		}()
		fn()
	}()
	<-ready
	return t
}

func (s *Sched) lookup(owner any, auto bool, name string) *Task {
	gid := curGid()
	s.mu.Lock()
	t := s.byGid[gid]
	if t == nil && auto && s.active {
		t = &Task{Name: name, wake: make(chan struct{}), held: map[lockKey]string{}, owner: owner, state: tsRunning, gid: gid, auto: true}
		t.ID = len(s.tasks)
		s.tasks = append(s.tasks, t)
		s.byGid[gid] = t
		if s.deadOwners[owner] {
			t.dead = true
		}
	}
	s.mu.Unlock()
	return t
}

// park blocks the calling task until the scheduler releases it again.
func (s *Sched) park(t *Task) {
	s.notify()
	<-t.wake
}

// mutexHolder is implemented (in the verif shims) by objects whose mutex is modelled.
type mutexHolder interface {
	VerifMutex(kind string) *sync.Mutex
}

// checkHeld verifies that every lock the model believes t holds is really locked: a change that
// drops a Lock()/Unlock() pair but keeps the hook calls would otherwise blind the lock model.
func (s *Sched) checkHeld(t *Task, where string) {
	for k, site := range t.held {
		mh, ok := k.obj.(mutexHolder)
		if !ok {
			continue
		}
		mu := mh.VerifMutex(k.kind)
		if mu == nil {
			continue
		}
		if mu.TryLock() {
			mu.Unlock()
			s.mu.Lock()
			if s.Violation == nil {
				s.Violation = &Violation{Oracle: "lock-model", Signature: "modelled-lock-not-held:" + k.kind + "@" + site,
					Message: fmt.Sprintf("task %s is inside the critical section entered at %s (reached %s) but the %s mutex is not locked: other requests are not excluded", t.Name, site, where, k.kind)}
			}
			s.mu.Unlock()
		}
	}
}

func (s *Sched) point(owner any, name string) {
	if !s.active {
		return
	}
	t := s.lookup(owner, true, "auto:"+name)
	if t == nil {
		return
	}
	s.checkHeld(t, name)
	if f := s.OnPoint; f != nil {
		f(t, name)
	}
	s.mu.Lock()
	t.state = tsParked
	t.at = name
	t.wild = false
	s.mu.Unlock()
	s.park(t)
}

// taskNamer is implemented (in the verif shims) by owners that tell goroutines of one kind apart.
type taskNamer interface {
	VerifTaskName() string
}

func (s *Sched) goStart(owner any, name string) {
	if !s.active {
		return
	}
	if tn, ok := owner.(taskNamer); ok {
		name += ":" + tn.VerifTaskName()
	}
	t := s.lookup(owner, true, name)
	if t == nil {
		return
	}
	s.mu.Lock()
	t.state = tsParked
	t.at = "go:" + name
	t.wild = false
	s.mu.Unlock()
	s.park(t)
}

// goEnd marks an adopted goroutine as finished.
func (s *Sched) goEnd(owner any, name string) {
	t := s.lookup(owner, false, "")
	if t == nil || !t.auto {
		return
	}
	s.mu.Lock()
	t.state = tsDone
	delete(s.byGid, t.gid)
	for k, li := range s.locks {
		if li.holder == t {
			delete(s.locks, k) // the real mutex was released by the deferred Unlock; a panic skipped the Release hook
		}
	}
	s.mu.Unlock()
	s.notify()
}

// AutoAlive counts the adopted goroutines that have not finished.
func (s *Sched) AutoAlive() int {
	s.mu.Lock()
	defer s.mu.Unlock()
	n := 0
	for _, t := range s.tasks {
		if t.auto && !t.dead && t.state != tsDone {
			n++
		}
	}
	return n
}

// AutoAliveNames lists the adopted goroutines that have not finished with the hook they were last seen at.
func (s *Sched) AutoAliveNames() []string {
	s.mu.Lock()
	defer s.mu.Unlock()
	var out []string
	for _, t := range s.tasks {
		if t.auto && !t.dead && t.state != tsDone {
			out = append(out, t.Name+"@"+t.at)
		}
	}
	sort.Strings(out)
	return out
}

// Drain ends cooperative scheduling: every parked task is released and the hooks stop parking. What is
// still running (event chains, retries, re-runs) continues under the Go scheduler.
func (s *Sched) Drain() {
	s.mu.Lock()
	s.active = false
	var parked []*Task
	for _, t := range s.tasks {
		if !t.dead && (t.state == tsParked || t.state == tsWaitLock) {
			t.state = tsRunning
			parked = append(parked, t)
		}
	}
	s.mu.Unlock()
	for _, t := range parked {
		t.wake <- struct{}{}
	}
}

func (s *Sched) acquire(owner any, kind string, obj any) {
	if !s.active {
		return
	}
	t := s.lookup(owner, false, "")
	if t == nil {
		// a helper goroutine (errgroup, callback) of the task released right now takes the lock on its behalf:
		// the task itself is blocked waiting for the helper
		s.mu.Lock()
		if c := s.current; c != nil && c.state == tsRunning {
			t = c
		}
		s.mu.Unlock()
	}
	if t == nil {
		t = s.lookup(owner, true, "auto:acquire:"+kind)
	}
	if t == nil {
		return
	}
	key := lockKey{kind, obj}
	site := callSite(4)
	s.mu.Lock()
	li := s.locks[key]
	if li == nil && !s.preempt[kind] {
		s.locks[key] = &lockInfo{holder: t, site: site}
		s.noteOrder(t, site)
		t.held[key] = site
		s.mu.Unlock()
		return
	}
	t.state = tsWaitLock
	t.wantKey = key
	t.wantAt = site
	t.at = "acquire:" + kind
	t.wild = false
	s.mu.Unlock()
	s.park(t)
	// the scheduler granted the lock before releasing us
}

func (s *Sched) noteOrder(t *Task, site string) {
	for _, hs := range t.held {
		s.lockPairs[hs+">"+site] = true
	}
}

func (s *Sched) release(owner any, kind string, obj any) {
	if !s.active {
		return
	}
	t := s.lookup(owner, false, "")
	key := lockKey{kind, obj}
	s.mu.Lock()
	if li := s.locks[key]; li != nil && (t == nil || li.holder == t) {
		delete(s.locks, key)
		delete(li.holder.held, key) // released by the holder or by a helper goroutine on its behalf
	}
	s.mu.Unlock()
}

func (s *Sched) access(owner any, obj string, write bool) {
	if !s.active {
		return
	}
	t := s.lookup(owner, false, "")
	if t == nil {
		// a helper goroutine (an errgroup or bus callback) works on behalf of the task that is released right now
		s.mu.Lock()
		t = s.current
		s.mu.Unlock()
		if t == nil || t.state != tsRunning {
			return
		}
	}
	site := callSite(4)
	s.checkHeld(t, "access "+obj)
	s.mu.Lock()
	defer s.mu.Unlock()
	ls := map[lockKey]bool{}
	for k := range t.held {
		ls[k] = true
	}
	for _, a := range s.accLog[obj] {
		if a.task == t || (!a.write && !write) {
			continue
		}
		if a.task.state == tsDone {
			continue
		}
		common := false
		for k := range ls {
			if a.locks[k] {
				common = true
				break
			}
		}
		if !common {
			w1, w2 := "read", "read"
			if a.write {
				w1 = "write"
			}
			if write {
				w2 = "write"
			}
			r := fmt.Sprintf("%s: %s@%s / %s@%s", obj, w1, a.site, w2, site)
			dup := false
			for _, x := range s.Races {
				if x == r {
					dup = true
				}
			}
			if !dup {
				s.Races = append(s.Races, r)
			}
		}
	}
	// keep the latest access per task
	l := s.accLog[obj]
	kept := l[:0]
	for _, a := range l {
		if a.task != t || a.write != write {
			kept = append(kept, a)
		}
	}
	s.accLog[obj] = append(kept, raceAccess{task: t, write: write, locks: ls, site: site})
}

// KillOwner marks every task of an owner (a crashed hub instance) dead.
func (s *Sched) KillOwner(owner any) {
	s.mu.Lock()
	s.deadOwners[owner] = true
	for _, t := range s.tasks {
		if t.owner == owner && t.state != tsDone {
			t.dead = true
		}
	}
	for k, li := range s.locks {
		if li.holder.dead {
			delete(s.locks, k)
		}
	}
	s.mu.Unlock()
}

// renumber gives the tasks adopted since the last scheduling round their ids in name order: goroutines
// started together (two cron entries of one tick, two subscribers of one event) reach their first hook
// in an order the Go scheduler decides, and the ids are what a recorded schedule refers to.
func (s *Sched) renumber() {
	if s.numbered >= len(s.tasks) {
		return
	}
	tail := s.tasks[s.numbered:]
	sort.SliceStable(tail, func(i, j int) bool {
		if tail[i].auto != tail[j].auto {
			return !tail[i].auto // tasks spawned by the harness keep their order
		}
		return tail[i].auto && tail[i].Name < tail[j].Name
	})
	for i, t := range tail {
		t.ID = s.numbered + i
	}
	s.numbered = len(s.tasks)
}

func (s *Sched) runnable() []*Task {
	var out []*Task
	for _, t := range s.tasks {
		if t.dead || t.state == tsDone || t.state == tsRunning {
			continue
		}
		if t.state == tsWaitLock {
			if li := s.locks[t.wantKey]; li != nil {
				continue
			}
		}
		out = append(out, t)
	}
	return out
}

func (s *Sched) lockName(k lockKey) string {
	if n, ok := s.names[k.obj]; ok {
		return k.kind + ":" + n
	}
	return k.kind
}

// SetName gives a lock object (e.g. a *Dataset) a display name for traces.
func (s *Sched) SetName(obj any, name string) { s.names[obj] = name }

// deadlockDescription finds a cycle in the wait-for graph (task -> holder of the lock it wants).
// The signature lists the distinct "waiting site>holding site" edges of the cycle.
func (s *Sched) deadlockDescription() (sig, msg string) {
	waiting := map[*Task]*Task{}
	for _, t := range s.tasks {
		if t.dead || t.state != tsWaitLock {
			continue
		}
		if li := s.locks[t.wantKey]; li != nil {
			waiting[t] = li.holder
		}
	}
	var parts []string
	for _, t := range s.tasks {
		if h, ok := waiting[t]; ok {
			li := s.locks[t.wantKey]
			parts = append(parts, fmt.Sprintf("%s waits for %s at %s, held by %s since %s", t.Name, s.lockName(t.wantKey), t.wantAt, h.Name, li.site))
		}
	}
	// follow holders from each waiting task until a task repeats
	var cycle []*Task
	for _, start := range s.tasks {
		if _, ok := waiting[start]; !ok {
			continue
		}
		seen := map[*Task]int{}
		var path []*Task
		cur := start
		for {
			if i, ok := seen[cur]; ok {
				cycle = path[i:]
				break
			}
			seen[cur] = len(path)
			path = append(path, cur)
			nxt, ok := waiting[cur]
			if !ok {
				break
			}
			cur = nxt
		}
		if cycle != nil {
			break
		}
	}
	edges := map[string]bool{}
	for _, t := range cycle {
		li := s.locks[t.wantKey]
		e := t.wantAt + ">" + li.site + ":" + t.wantKey.kind
		if s.names[t.wantKey.obj] == "core.Dataset" {
			e += "@core.Dataset"
		}
		edges[e] = true
	}
	var el []string
	for e := range edges {
		el = append(el, e)
	}
	sort.Strings(el)
	if len(el) == 0 {
		// nobody in a cycle: some lock is held by a task that finished or moved on without releasing it
		for _, t := range s.tasks {
			if _, ok := waiting[t]; ok {
				li := s.locks[t.wantKey]
				if li.holder.state == tsDone || li.holder.state == tsParked || li.holder.held[t.wantKey] == "" {
					edges["lock-leaked:"+li.site+":"+t.wantKey.kind] = true
				}
			}
		}
		for e := range edges {
			el = append(el, e)
		}
		sort.Strings(el)
		if len(el) == 0 {
			el = []string{"no-cycle"}
		}
	}
	return strings.Join(el, ","), strings.Join(parts, "; ")
}

// Run drives the tasks until all are done, a deadlock / hang is found or the step budget ends.
// It must be called from the bubble's main goroutine.
func (s *Sched) Run() {
	s.active = true
	defer func() { s.active = false }()
	idleSince := time.Now()
	for s.Steps < s.MaxSteps {
		synctest.Wait()
		s.mu.Lock()
		// a released task that has not yielded is blocked outside the hooks
		if c := s.current; c != nil && c.state == tsRunning && !c.wild {
			s.mu.Unlock()
			// give it a short grace period on the fake clock (e.g. the 1 ns sleep in StoreEntities)
			select {
			case <-s.yieldCh:
				continue
			case <-time.After(s.Grace):
			}
			s.mu.Lock()
			if c.state == tsRunning {
				c.wild = true
				s.Stats["wild_blocks"]++
			}
			s.mu.Unlock()
			continue
		}
		s.renumber()
		run := s.runnable()
		alive, wild := 0, 0
		for _, t := range s.tasks {
			if t.dead || t.state == tsDone {
				continue
			}
			alive++
			if t.state == tsRunning {
				wild++
			}
		}
		if s.ClientsOnly {
			clients := 0
			for _, t := range s.tasks {
				if !t.auto && !t.dead && t.state != tsDone {
					clients++
				}
			}
			if clients == 0 {
				s.mu.Unlock()
				return
			}
		}
		if len(run) == 0 {
			if alive == 0 {
				s.mu.Unlock()
				return
			}
			if wild > 0 {
				s.mu.Unlock()
				// let the fake clock move to the next timer
				select {
				case <-s.yieldCh:
					idleSince = time.Now()
				case <-time.After(time.Minute):
					if time.Since(idleSince) > s.IdleMax {
						s.mu.Lock()
						var names []string
						for _, t := range s.tasks {
							if !t.dead && t.state == tsRunning {
								names = append(names, t.Name+"@"+t.at)
							}
						}
						s.mu.Unlock()
						sort.Strings(names)
						s.Violation = &Violation{Oracle: "hang", Signature: "hang:" + strings.Join(names, ","),
							Message: fmt.Sprintf("no progress for %v of simulated time; blocked tasks: %v\nlast events:\n%s", s.IdleMax, names, s.TraceTail(15))}
						return
					}
				}
				continue
			}
			sig, msg := s.deadlockDescription()
			s.mu.Unlock()
			s.Violation = &Violation{Oracle: "deadlock", Signature: "deadlock:" + sig, Message: msg + "\nlast events:\n" + s.TraceTail(15)}
			return
		}
		idleSince = time.Now()
		t := s.choose(run)
		if t.state == tsWaitLock {
			s.locks[t.wantKey] = &lockInfo{holder: t, site: t.wantAt}
			s.noteOrder(t, t.wantAt)
			t.held[t.wantKey] = t.wantAt
			s.ev("%s acquires %s at %s", t.Name, s.lockName(t.wantKey), t.wantAt)
		} else {
			s.ev("%s runs from %s", t.Name, t.at)
		}
		if s.current != nil && s.current != t && s.current.state != tsDone {
			s.Stats["preemptions"]++
		}
		t.state = tsRunning
		t.wild = false
		t.steps++
		s.current = t
		s.Steps++
		s.mu.Unlock()
		time.Sleep(s.StepCost)
		t.wake <- struct{}{}
	}
	s.Stats["budget_exhausted"]++
}

// choose picks the next task among the runnable ones.
func (s *Sched) choose(run []*Task) *Task {
	def := run[0]
	for _, t := range run {
		if t == s.current {
			def = t
		}
	}
	if len(run) == 1 {
		return def
	}
	s.Stats["choice_points"]++
	if s.pos < len(s.schedule) {
		want := s.schedule[s.pos]
		s.pos++
		for _, t := range run {
			if t.ID == want {
				s.Chosen = append(s.Chosen, t.ID)
				return t
			}
		}
		s.Stats["schedule_misses"]++
		s.Chosen = append(s.Chosen, def.ID)
		return def
	}
	if s.gen != nil {
		pick := def
		if s.gen.P(s.pPreempt) {
			pick = run[s.gen.Intn(len(run))]
		}
		s.Chosen = append(s.Chosen, pick.ID)
		return pick
	}
	s.Chosen = append(s.Chosen, def.ID)
	return def
}
