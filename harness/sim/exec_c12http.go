package verifsim

import (
	"bytes"
	"fmt"
	"net/url"
	"os"
	"strings"
	"time"

	"github.com/mimiro-io/datahub/internal/server"
)

// Profile C12h: consumers of GET /datasets/{name}/changes (the router, middlewares and handler of the web layer)
// keep their continuation tokens across deduplicating compactions of the dataset. What a consumer is handed over
// all its pages must be the history that was written, in order, every version once; only versions identical to
// their immediate predecessor may be left out. A consumer that has read to the end and hands its token back is
// given nothing and the same token until something is written, whether a compaction ran in between or not.

type c12hConsumer struct {
	latest  bool
	limit   int
	token   string
	pos     int  // full feed: index of the next unread version of the written history
	drained bool // the last page ended at the end of the feed
	atLen   int  // length of the written history when it did
	pages   int
	given   map[string]string // latest-only: entity -> version last handed out
}

type C12hRun struct {
	Sc    *Scenario
	H     *Hub
	M     *Model
	Stats map[string]int64
	trace []byte
	cons  map[int]*c12hConsumer
	// compactedSince: a compaction ran since the consumer's last page (per consumer index)
	compacted map[int]bool
}

func (r *C12hRun) ev(format string, args ...any) {
	r.trace = append(r.trace, fmt.Sprintf(format, args...)...)
	r.trace = append(r.trace, '\n')
}

func (r *C12hRun) follow(op *Op) *Violation {
	c := r.cons[op.Reader]
	if c == nil {
		c = &c12hConsumer{latest: op.Latest, limit: op.Limit, given: map[string]string{}}
		r.cons[op.Reader] = c
	}
	d := r.M.DS[op.DS]
	kind := "full"
	q := []string{}
	if c.latest {
		kind = "latestOnly"
		q = append(q, "latestOnly=true")
	}
	if c.token != "" {
		q = append(q, "since="+url.QueryEscape(c.token))
	}
	if c.limit > 0 {
		q = append(q, fmt.Sprintf("limit=%d", c.limit))
	}
	path := "/datasets/" + op.DS + "/changes"
	if len(q) > 0 {
		path += "?" + strings.Join(q, "&")
	}
	hdr := map[string]string{}
	if op.S == "jsonld" {
		// the JSON-LD rendering is not parsed back: only the plain consumers are judged
		hdr["Accept"] = "application/ld+json"
	}
	code, body := r.H.Do("GET", path, hdr, nil)
	r.Stats["feed_pages_over_http"]++
	if code != 200 {
		return viol("C12", "http-reader", fmt.Sprintf("read-rejected:%d", code), "GET %s was answered %d %s", path, code, clip(string(body)))
	}
	if op.S == "jsonld" {
		return nil
	}
	var got []string
	var ids []string
	next := ""
	err := server.NewEntityStreamParser(r.H.Store).ParseStream(bytes.NewReader(body), func(e *server.Entity) error {
		if e.ID == "@continuation" {
			next, _ = e.Properties["token"].(string)
			return nil
		}
		ce := r.H.Canon(e)
		got = append(got, ce.String())
		ids = append(ids, ce.ID)
		return nil
	})
	if err != nil {
		return viol("C12", "http-reader", "page-does-not-parse", "the answer to GET %s does not parse back: %v; body %s", path, err, clip(string(body)))
	}
	after := ""
	if r.compacted[op.Reader] {
		after = ":after-compaction"
		r.Stats["pages_with_token_from_before_a_compaction"]++
	}
	r.compacted[op.Reader] = false
	r.ev("follow r=%d n=%d tok=%s", op.Reader, len(got), next)
	if c.drained && c.atLen == len(d.Versions) {
		// nothing was written since the consumer read to the end
		r.Stats["idle_polls"]++
		if len(got) != 0 {
			return viol("C12", "http-reader", kind+":entries-without-news"+after, "consumer %d of %s (%s, limit %d) had read to the end, nothing was written since, and handing its token %s back gave %d entries (first %s) and token %s",
				op.Reader, op.DS, kind, c.limit, c.token, len(got), got[0], next)
		}
		if next != c.token {
			return viol("C12", "http-reader", kind+":token-moved-without-news"+after, "consumer %d of %s (%s) had read to the end, nothing was written since, and handing its token %s back gave token %s",
				op.Reader, op.DS, kind, c.token, next)
		}
		c.pages++
		return nil
	}
	short := len(got) == 0 || c.limit == 0 || len(got) < c.limit
	if !c.latest {
		rem := d.removable()
		idx := c.pos
		for gi, g := range got {
			for idx < len(d.Versions) && d.Versions[idx].Str != g && rem[idx] {
				idx++
			}
			if idx >= len(d.Versions) {
				return viol("C12", "http-reader", kind+":page:extra-entry"+after, "consumer %d of %s (limit %d, token %s): entry %d of the page (%s) is not among the unread versions of the history (%d written, %d read)",
					op.Reader, op.DS, c.limit, c.token, gi, g, len(d.Versions), c.pos)
			}
			if d.Versions[idx].Str != g {
				return viol("C12", "http-reader", kind+":page:wrong-entry"+after, "consumer %d of %s (limit %d, token %s): entry %d of the page is %s, the next unread version (index %d) is %s",
					op.Reader, op.DS, c.limit, c.token, gi, g, idx, d.Versions[idx].Str)
			}
			idx++
		}
		if short {
			for ; idx < len(d.Versions); idx++ {
				if !rem[idx] {
					return viol("C12", "http-reader", kind+":page:missing-entry"+after, "consumer %d of %s (limit %d, token %s) was given %d entries and the feed ended there although version %d (%s) is unread",
						op.Reader, op.DS, c.limit, c.token, len(got), idx, d.Versions[idx].Str)
				}
			}
		}
		c.pos = idx
	} else {
		seen := map[string]bool{}
		for gi, g := range got {
			id := ids[gi]
			if seen[id] {
				return viol("C12", "http-reader", kind+":page:entity-twice"+after, "consumer %d of %s (latest only, limit %d, token %s) was given %s twice in one page", op.Reader, op.DS, c.limit, c.token, shortURI(id))
			}
			seen[id] = true
			if l := d.LatestOf(id); l == nil || l.String() != g {
				return viol("C12", "http-reader", kind+":page:not-the-newest-version"+after, "consumer %d of %s (latest only, token %s) was given %s, which is not the newest version of the entity", op.Reader, op.DS, c.token, g)
			}
			if c.given[id] == g {
				// handed out before and not written since: only a version identical to it can have been written
				same := false
				for j := c.atLen; j < len(d.Versions); j++ {
					if d.Versions[j].C.ID == id {
						same = true
					}
				}
				if c.drained && !same {
					return viol("C12", "http-reader", kind+":page:repeated-entry"+after, "consumer %d of %s (latest only, token %s) was given %s again although the entity was not written since the consumer read to the end",
						op.Reader, op.DS, c.token, g)
				}
			}
			c.given[id] = g
		}
		if short {
			// at the end of the feed: everything written since the consumer was last at the end has been handed out,
			// except an entity whose newest version is identical to the one before (open finding KF-C12-2 territory)
			rem := d.removable()
			from := c.atLen // 0 until the consumer has been at the end once
			for j := from; j < len(d.Versions); j++ {
				id := d.Versions[j].C.ID
				if !d.IsLatest(j) || rem[j] {
					continue
				}
				if c.given[id] != d.Versions[j].Str {
					return viol("C12", "http-reader", kind+":page:missing-entry"+after, "consumer %d of %s (latest only, limit %d, token %s) reached the end of the feed and was never given the newest version of %s (%s)",
						op.Reader, op.DS, c.limit, c.token, shortURI(id), d.Versions[j].Str)
				}
			}
		}
	}
	if next == "" {
		return viol("C12", "http-reader", kind+":no-token", "the answer to GET %s carries no continuation token", path)
	}
	c.token = next
	c.pages++
	c.drained = short
	if short {
		c.atLen = len(d.Versions)
	}
	return nil
}

// RunC12HTTPScenario executes profile C12h.
func RunC12HTTPScenario(sc *Scenario) (vd *Verdict) {
	vd = &Verdict{Verdict: "ok", Property: "C12", Profile: sc.Profile, Seed: sc.Seed}
	r := &C12hRun{Sc: sc, M: NewModel(), Stats: map[string]int64{}, cons: map[int]*c12hConsumer{}, compacted: map[int]bool{}}
	start := time.Now()
	secDir := NewDir("sec")
	h, err := OpenWebHub(NewDir("webhub"), secDir, sc.Knobs, false)
	if err != nil {
		vd.Verdict, vd.Message = "error", err.Error()
		return
	}
	r.H = h
	defer func() {
		_ = r.H.Close()
		os.RemoveAll(r.H.Dir)
		os.RemoveAll(secDir)
	}()
	fail := func(v *Violation, step int) {
		vd.Verdict = "violation"
		if v.Oracle == "harness" {
			vd.Verdict = "invalid"
		}
		vd.Property, vd.Oracle, vd.Signature, vd.Message, vd.Step = "C12", v.Oracle, v.Signature, v.Message, step
	}
	defer func() {
		vd.Stats = r.Stats
		vd.TraceHash = fmt.Sprintf("%x", sha8(r.trace))
		vd.SimNS = int64(time.Since(start))
		vd.Nontrivial = r.Stats["compactions"] >= 1 && r.Stats["feed_pages_over_http"] >= 2
	}()
	for _, d := range sc.Datasets {
		if _, err := h.Dsm.CreateDataset(d, nil); err != nil {
			vd.Verdict, vd.Message = "error", err.Error()
			return
		}
		r.M.Create(d)
	}
	for i := range sc.Ops {
		op := &sc.Ops[i]
		time.Sleep(time.Millisecond)
		switch op.K {
		case "batch":
			ds := r.H.Dataset(op.DS)
			if ds == nil {
				fail(viol("C12", "harness", "invalid", "no dataset %s", op.DS), i)
				return
			}
			if err := ds.StoreEntities(r.H.Entities(op.Ents)); err != nil {
				fail(viol("C12", "write", "store-failed", "StoreEntities(%s): %v", op.DS, err), i)
				return
			}
			n := r.M.Batch(op.DS, op.Ents)
			r.Stats["commits"]++
			r.ev("batch stored=%d", n)
		case "dup":
			ds := r.H.Dataset(op.DS)
			if ds == nil {
				break
			}
			ok, err := ds.VerifInjectDuplicate(r.H.curie(op.S), time.Now().UnixNano())
			if err != nil {
				fail(viol("C12", "harness", "invalid", "inject duplicate: %v", err), i)
				return
			}
			if ok {
				d := r.M.DS[op.DS]
				if cur := d.LatestOf(markerToFull(op.S)); cur != nil {
					d.ForceAppend(cur)
					r.Stats["legacy_duplicates"]++
					r.ev("dup")
				}
			}
		case "compact":
			if err := r.H.Compact(op.DS, op.N); err != nil {
				fail(viol("C12", "compaction", "compact-error", "compaction of %s failed: %v", op.DS, err), i)
				return
			}
			r.Stats["compactions"]++
			for k := range r.cons {
				r.compacted[k] = true
			}
			r.ev("compact")
		case "follow":
			if v := r.follow(op); v != nil {
				fail(v, i)
				return
			}
		default:
			fail(viol("C12", "harness", "invalid", "unknown op kind %q", op.K), i)
			return
		}
	}
	return
}
