package verifsim

import (
	"encoding/json"
	"fmt"
	"testing/synctest"
	"time"

	"github.com/DataDog/datadog-go/v5/statsd"

	"github.com/mimiro-io/datahub/internal/conf"
	"github.com/mimiro-io/datahub/internal/jobs"
	"github.com/mimiro-io/datahub/internal/server"
)

// FullHub holds the job layer (and, for web profiles, the HTTP and security layers) of a hub.
type FullHub struct {
	Bus    server.EventBus
	Runner *jobs.Runner
	Sched  *jobs.Scheduler
	Web    *webLayer
}

func (f *FullHub) stop() {
	if f.Runner != nil {
		func() {
			defer func() { _ = recover() }()
			f.Runner.Stop()
		}()
	}
}

// OpenJobsHub opens a hub with the real event bus, job runner and scheduler.
func OpenJobsHub(dir string, knobs map[string]int64) (h *Hub, err error) {
	defer func() {
		if r := recover(); r != nil {
			err = fmt.Errorf("open panicked: %v", r)
		}
	}()
	env := newEnv(dir, knobs)
	env.RunnerConfig = &conf.RunnerConfig{PoolIncremental: int(knobOr(knobs, "poolIncr", 4)), PoolFull: int(knobOr(knobs, "poolFull", 2)), Concurrent: 1}
	h = &Hub{Dir: dir, Env: env, Full: &FullHub{}, Logs: lastObserved}
	h.Full.Bus, err = server.NewBus(env)
	if err != nil {
		return nil, err
	}
	h.Store = server.NewStore(env, &statsd.NoOpClient{})
	h.Dsm = server.NewDsManager(env, h.Store, h.Full.Bus)
	h.PfxE, err = h.Store.NamespaceManager.AssertPrefixMappingForExpansion(ExE)
	if err != nil {
		return nil, err
	}
	h.PfxS, err = h.Store.NamespaceManager.AssertPrefixMappingForExpansion(ExS)
	if err != nil {
		return nil, err
	}
	h.Full.Runner = jobs.NewRunner(env, h.Store, nil, h.Full.Bus, &statsd.NoOpClient{})
	h.Full.Sched = jobs.NewScheduler(env, h.Store, h.Dsm, h.Full.Runner)
	return h, nil
}

func knobOr(k map[string]int64, name string, def int64) int64 {
	if v, ok := k[name]; ok {
		return v
	}
	return def
}

// AddJobJSON registers a job from its JSON configuration (as POST /jobs does).
func (h *Hub) AddJobJSON(cfg map[string]any) error {
	b, err := json.Marshal(cfg)
	if err != nil {
		return err
	}
	jc, err := h.Full.Sched.Parse(b)
	if err != nil {
		return err
	}
	return h.Full.Sched.AddJob(jc)
}

// RunJobToEnd starts a job as PUT /job/:id/run does and lets the fake clock run until it has
// ended. It returns false if the job is still running after the simulated time limit.
func (h *Hub) RunJobToEnd(id, jobType string, limit time.Duration) (started bool, ended bool, err error) {
	_, err = h.Full.Sched.RunJob(id, jobType)
	if err != nil {
		return false, false, err
	}
	return true, h.WaitJobsIdle(limit), nil
}

// WaitJobsIdle lets simulated time pass until no job is running.
func (h *Hub) WaitJobsIdle(limit time.Duration) bool {
	deadline := time.Now().Add(limit)
	for {
		synctest.Wait()
		if len(h.Full.Sched.GetRunningJobs()) == 0 {
			// let goroutines that were just released (retry timers, event handlers) settle
			synctest.Wait()
			if len(h.Full.Sched.GetRunningJobs()) == 0 {
				return true
			}
		}
		if time.Now().After(deadline) {
			return false
		}
		time.Sleep(time.Millisecond)
	}
}

// LastResult returns the stored outcome of the last run of a job (nil if none).
func (h *Hub) LastResult(id string) map[string]any {
	for _, r := range h.Full.Sched.GetJobHistory() {
		b, _ := json.Marshal(r)
		var m map[string]any
		_ = json.Unmarshal(b, &m)
		if m["id"] == id {
			return m
		}
	}
	return nil
}

type webLayer struct{}
