package verifsim

import (
	"bytes"
	"crypto/rand"
	"crypto/rsa"
	"encoding/json"
	"fmt"
	"io"
	"net/http/httptest"
	"os"
	"testing/synctest"
	"time"

	"github.com/labstack/echo/v4"

	"github.com/mimiro-io/datahub/internal/content"
	"github.com/mimiro-io/datahub/internal/security"
	"github.com/mimiro-io/datahub/internal/web"

	"github.com/DataDog/datadog-go/v5/statsd"

	"github.com/mimiro-io/datahub/internal/conf"
	"github.com/mimiro-io/datahub/internal/jobs"
	"github.com/mimiro-io/datahub/internal/server"
)

// FullHub holds the job layer (and, for web profiles, the HTTP and security layers) of a hub.
type FullHub struct {
	Bus    server.EventBus
	Runner *jobs.Runner
	Sched  *jobs.Scheduler
	Web    *webLayer
}

func (f *FullHub) stop() {
	if f.Runner != nil {
		func() {
			defer func() { _ = recover() }()
			f.Runner.Stop()
		}()
	}
}

// OpenJobsHub opens a hub with the real event bus, job runner and scheduler.
func OpenJobsHub(dir string, knobs map[string]int64) (h *Hub, err error) {
	defer func() {
		if r := recover(); r != nil {
			err = fmt.Errorf("open panicked: %v", r)
		}
	}()
	env := newEnv(dir, knobs)
	env.RunnerConfig = &conf.RunnerConfig{PoolIncremental: int(knobOr(knobs, "poolIncr", 4)), PoolFull: int(knobOr(knobs, "poolFull", 2)), Concurrent: 1}
	h = &Hub{Dir: dir, Env: env, Full: &FullHub{}, Logs: lastObserved}
	h.Full.Bus, err = server.NewBus(env)
	if err != nil {
		return nil, err
	}
	h.Store = server.NewStore(env, &statsd.NoOpClient{})
	h.Dsm = server.NewDsManager(env, h.Store, h.Full.Bus)
	h.PfxE, err = h.Store.NamespaceManager.AssertPrefixMappingForExpansion(ExE)
	if err != nil {
		return nil, err
	}
	h.PfxS, err = h.Store.NamespaceManager.AssertPrefixMappingForExpansion(ExS)
	if err != nil {
		return nil, err
	}
	h.Full.Runner = jobs.NewRunner(env, h.Store, nil, h.Full.Bus, &statsd.NoOpClient{})
	h.Full.Sched = jobs.NewScheduler(env, h.Store, h.Dsm, h.Full.Runner)
	return h, nil
}

func knobOr(k map[string]int64, name string, def int64) int64 {
	if v, ok := k[name]; ok {
		return v
	}
	return def
}

// AddJobJSON registers a job from its JSON configuration (as POST /jobs does).
func (h *Hub) AddJobJSON(cfg map[string]any) error {
	b, err := json.Marshal(cfg)
	if err != nil {
		return err
	}
	jc, err := h.Full.Sched.Parse(b)
	if err != nil {
		return err
	}
	return h.Full.Sched.AddJob(jc)
}

// RunJobToEnd starts a job as PUT /job/:id/run does and lets the fake clock run until it has
// ended. It returns false if the job is still running after the simulated time limit.
func (h *Hub) RunJobToEnd(id, jobType string, limit time.Duration) (started bool, ended bool, err error) {
	_, err = h.Full.Sched.RunJob(id, jobType)
	if err != nil {
		return false, false, err
	}
	return true, h.WaitJobsIdle(limit), nil
}

// RunJobByTrigger lets simulated time pass until the job's own cron trigger has fired and the run has ended: the run
// then uses the pipeline, source, sink and transform objects the scheduler built when the job was added, which live
// as long as the job is configured (a run started through RunJob builds new ones).
func (h *Hub) RunJobByTrigger(limit time.Duration) (ended bool) {
	fire := time.Now().Add(10 * time.Minute)
	for _, e := range h.Full.Sched.GetScheduleEntries().Entries {
		if e.Next.After(time.Now()) && e.Next.Before(fire.Add(time.Second)) {
			fire = e.Next
		}
	}
	time.Sleep(time.Until(fire) + time.Second)
	return h.WaitJobsIdle(limit)
}

// WaitJobsIdle lets simulated time pass until no job is running.
func (h *Hub) WaitJobsIdle(limit time.Duration) bool {
	deadline := time.Now().Add(limit)
	for {
		synctest.Wait()
		if len(h.Full.Sched.GetRunningJobs()) == 0 {
			// let goroutines that were just released (retry timers, event handlers) settle
			synctest.Wait()
			if len(h.Full.Sched.GetRunningJobs()) == 0 {
				return true
			}
		}
		if time.Now().After(deadline) {
			return false
		}
		time.Sleep(time.Millisecond)
	}
}

// LastResult returns the stored outcome of the last run of a job (nil if none).
func (h *Hub) LastResult(id string) map[string]any {
	for _, r := range h.Full.Sched.GetJobHistory() {
		b, _ := json.Marshal(r)
		var m map[string]any
		_ = json.Unmarshal(b, &m)
		if m["id"] == id {
			return m
		}
	}
	return nil
}

type webLayer struct {
	Echo *echo.Echo
	Core *security.ServiceCore
	Svc  *web.WebService
	TPS  *security.TokenProviders
}

const (
	adminUser = "admin-key"
	adminPass = "admin-secret"
	nodeID    = "node1"
)

// FixtureDir holds the node's RSA key pair, generated once by setup (4096-bit keys take seconds).
func FixtureDir() string {
	if d := os.Getenv("VERIF_FIXTURES"); d != "" {
		return d
	}
	return "/verif/build/fixtures"
}

// EnsureFixtures creates the key fixture if it is missing.
func EnsureFixtures() error {
	d := FixtureDir()
	if _, err := os.Stat(d + "/node_key.pub"); err == nil {
		return nil
	}
	if err := os.MkdirAll(d, 0o755); err != nil {
		return err
	}
	priv, pub := security.GenerateRsaKeyPair()
	pp, err := security.ExportRsaPrivateKeyAsPem(priv)
	if err != nil {
		return err
	}
	pubp, err := security.ExportRsaPublicKeyAsPem(pub)
	if err != nil {
		return err
	}
	tmp := fmt.Sprintf("%s/.tmp-%d", d, os.Getpid())
	if err := os.WriteFile(tmp+"-k", []byte(pp), 0o600); err != nil {
		return err
	}
	if err := os.WriteFile(tmp+"-p", []byte(pubp), 0o600); err != nil {
		return err
	}
	for _, name := range []string{"client1_key", "client2_key"} {
		k, err := rsa.GenerateKey(rand.Reader, 2048)
		if err != nil {
			return err
		}
		pem, err := security.ExportRsaPrivateKeyAsPem(k)
		if err != nil {
			return err
		}
		if err := os.WriteFile(tmp+"-c", []byte(pem), 0o600); err != nil {
			return err
		}
		_ = os.Rename(tmp+"-c", d+"/"+name)
	}
	_ = os.Rename(tmp+"-k", d+"/node_key")
	return os.Rename(tmp+"-p", d+"/node_key.pub")
}

// OpenWebHub opens a complete hub: store, jobs, security and the HTTP router with its
// middlewares. secure selects Auth.Middleware=local (JWT + ACL) instead of noop.
func OpenWebHub(dir, secDir string, knobs map[string]int64, secure bool) (h *Hub, err error) {
	defer func() {
		if r := recover(); r != nil {
			err = fmt.Errorf("open panicked: %v", r)
		}
	}()
	env := newEnv(dir, knobs)
	env.RunnerConfig = &conf.RunnerConfig{PoolIncremental: int(knobOr(knobs, "poolIncr", 4)), PoolFull: int(knobOr(knobs, "poolFull", 2)), Concurrent: 1}
	env.SecurityStorageLocation = secDir
	env.AdminUserName, env.AdminPassword, env.NodeID = adminUser, adminPass, nodeID
	env.Auth = &conf.AuthConfig{Middleware: "noop", WellKnown: "http://wellknown.invalid/jwks.json"}
	if secure {
		env.Auth.Middleware = "local"
	}
	if err := os.MkdirAll(secDir, 0o755); err != nil {
		return nil, err
	}
	for _, f := range []string{"node_key", "node_key.pub"} {
		if _, err := os.Stat(secDir + "/" + f); err != nil {
			b, err := os.ReadFile(FixtureDir() + "/" + f)
			if err != nil {
				return nil, fmt.Errorf("key fixture missing (run bin/setup.sh): %w", err)
			}
			if err := os.WriteFile(secDir+"/"+f, b, 0o600); err != nil {
				return nil, err
			}
		}
	}
	h = &Hub{Dir: dir, Env: env, Full: &FullHub{Web: &webLayer{}}, Logs: lastObserved}
	h.Full.Bus, err = server.NewBus(env)
	if err != nil {
		return nil, err
	}
	h.Store = server.NewStore(env, &statsd.NoOpClient{})
	h.Dsm = server.NewDsManager(env, h.Store, h.Full.Bus)
	h.PfxE, err = h.Store.NamespaceManager.AssertPrefixMappingForExpansion(ExE)
	if err != nil {
		return nil, err
	}
	h.PfxS, err = h.Store.NamespaceManager.AssertPrefixMappingForExpansion(ExS)
	if err != nil {
		return nil, err
	}
	pm := security.NewProviderManager(env, h.Store, env.Logger)
	core := security.NewServiceCore(env)
	tps := security.NewTokenProviders(env.Logger, pm, core)
	h.Full.Runner = jobs.NewRunner(env, h.Store, tps, h.Full.Bus, &statsd.NoOpClient{})
	h.Full.Sched = jobs.NewScheduler(env, h.Store, h.Dsm, h.Full.Runner)
	cs := content.NewContentService(env, h.Store, &statsd.NoOpClient{})
	ws, err := web.NewWebService(&web.ServiceContext{Env: env, Logger: env.Logger, Statsd: &statsd.NoOpClient{}, SecurityCore: core,
		ContentService: cs, DatasetManager: h.Dsm, Store: h.Store, EventBus: h.Full.Bus, TokenProviders: tps, JobsScheduler: h.Full.Sched, Port: "0"})
	if err != nil {
		return nil, err
	}
	h.Full.Web.Svc, h.Full.Web.Echo, h.Full.Web.Core, h.Full.Web.TPS = ws, ws.VerifEcho(), core, tps
	return h, nil
}

// Do serves one HTTP request through the real router, middlewares and handlers.
func (h *Hub) Do(method, path string, headers map[string]string, body []byte) (status int, resp []byte) {
	var rd io.Reader
	if body != nil {
		rd = bytes.NewReader(body)
	}
	req := httptest.NewRequest(method, path, rd)
	for k, v := range headers {
		req.Header.Set(k, v)
	}
	if body != nil && req.Header.Get("Content-Type") == "" {
		req.Header.Set("Content-Type", "application/json")
	}
	rec := httptest.NewRecorder()
	h.Full.Web.Echo.ServeHTTP(rec, req)
	return rec.Code, rec.Body.Bytes()
}
