package verifsim

// FullHub holds the job / web / security layers of a hub-level instance.
type FullHub struct{}

func (f *FullHub) stop() {}
