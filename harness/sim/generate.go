package verifsim

import (
	"strings"
	"encoding/base64"
	"encoding/json"
	"fmt"
)

// Generate builds the scenario for (profile, seed, tier). Pure function of its arguments.
func Generate(profile string, seed uint64, tier string) (*Scenario, error) {
	g := NewG(seed*1000003 + hashStr(profile))
	sc := &Scenario{Profile: profile, Seed: seed, Tier: tier, Knobs: map[string]int64{}}
	switch profile {
	case "C01":
		sc.Property = "C01"
		c := g.baseStoreCfg(tier)
		c.PInvalid = g.PickFloat([]float64{0, 0.1, 0.25})
		if len(c.Datasets) < 2 && g.P(0.7) {
			c.Datasets = []string{"dsA", "dsB"}
		}
		sc.Datasets = c.Datasets
		sc.Ops = g.GenStoreHistory(c)
	case "C02":
		sc.Property = "C02"
		c := g.baseStoreCfg(tier)
		if g.P(0.6) {
			c.Datasets = c.Datasets[:1]
		}
		c.PRepeat = 0.35
		c.PInvalid = g.PickFloat([]float64{0, 0, 0.15})
		c.Readers = g.Range(1, 3)
		c.PRead = 0.35
		sc.Datasets = c.Datasets
		sc.Ops = g.GenStoreHistory(c)
		latest := make([]bool, c.Readers)
		for i := range latest {
			latest[i] = g.P(0.4)
		}
		for i := range sc.Ops {
			if sc.Ops[i].K == "read" {
				sc.Ops[i].Latest = latest[sc.Ops[i].Reader]
				sc.Ops[i].DS = c.Datasets[sc.Ops[i].Reader%len(c.Datasets)]
			}
		}
		if g.P(0.3) {
			sc.Ops = append(sc.Ops, Op{K: "readBeyond", DS: c.Datasets[0], Limit: g.Intn(3)})
		}
	case "C03":
		sc.Property = "C03"
		c := g.baseStoreCfg(tier)
		c.PRefHeavy = 0.9
		c.PNested = 0
		c.PInvalid = g.PickFloat([]float64{0, 0, 0.15})
		if c.NOps > 15 {
			sc.Knobs["checkEvery"] = 3
		}
		sc.Datasets = c.Datasets
		sc.Ops = g.GenStoreHistory(c)
		if g.P(0.35) {
			// the hub also has a proxy or a virtual dataset: nothing is stored in it, and a query scoped to it finds nothing
			sc.Datasets = append(append([]string{}, c.Datasets...), g.Pick([]string{"proxyP", "virtV"}))
		}
	case "C06":
		sc.Property = "C06"
		c := g.baseStoreCfg(tier)
		c.NOps = g.Range(4, 14)
		c.PRefHeavy = 0.8
		c.PNested = 0
		c.PRestart = 0.05
		if len(c.Pool) > 4 {
			c.Pool = c.Pool[:4]
		}
		sc.Datasets = c.Datasets
		ops := g.GenStoreHistory(c)
		if g.P(0.15) && len(ops) > 1 {
			// a full sync that lists nothing empties one of the datasets somewhere in the history
			at := g.Intn(len(ops)-1) + 1
			ops = append(ops[:at:at], append([]Op{{K: "fullsyncAway", DS: g.Pick(c.Datasets)}}, ops[at:]...)...)
		}
		marks := 0
		for _, op := range ops {
			if (op.K == "batch" || op.K == "txn") && marks < 4 && g.P(0.3) {
				op.M = map[string]any{"markBefore": true}
				marks += 2
			}
			sc.Ops = append(sc.Ops, op)
			if marks < 5 && g.P(0.15) {
				sc.Ops = append(sc.Ops, Op{K: "mark", Sleep: int64(g.PickInt([]int{1, 1, 1000}))})
				marks++
			}
			if g.P(0.2) {
				var scope []any
				if g.P(0.4) {
					scope = append(scope, g.Pick(c.Datasets))
				}
				pred := "*"
				if g.P(0.4) {
					pred = g.Pick(c.Preds)
				}
				ps := Op{K: "pageStart", S: g.Pick(c.Pool), DS: pred, Latest: g.P(0.5), A: scope, Limit: g.Range(1, 2)}
				if !ps.Latest && g.P(0.4) {
					// one query over several start entities: those the first page does not reach are answered, pages
					// later, as of the same instant
					var more []any
					for k := g.Range(1, 3); k > 0; k-- {
						more = append(more, g.Pick(c.Pool))
					}
					ps.M = map[string]any{"more": more}
				}
				sc.Ops = append(sc.Ops, ps)
			}
			if g.P(0.1) {
				sc.Ops = append(sc.Ops, Op{K: "pageContinue"})
			}
		}
	case "C12":
		sc.Property = "C12"
		genC12(g, sc, tier)
	case "C12c":
		sc.Property = "C12"
		genC12c(g, sc, tier)
	case "C11":
		sc.Property = "C11"
		genC11(g, sc, tier, seed)
	case "C15":
		sc.Property = "C15"
		genC15(g, sc, tier)
	case "C14":
		sc.Property = "C14"
		genC14(g, sc, tier, seed)
	case "C16":
		sc.Property = "C16"
		genC16(g, sc, tier, seed)
	case "C09":
		sc.Property = "C09"
		genC09(g, sc, tier)
	case "C08":
		sc.Property = "C08"
		genC08(g, sc, tier)
	case "C10":
		sc.Property = "C10"
		genC10(g, sc, tier, seed)
	case "C17":
		sc.Property = "C17"
		genC17(g, sc, tier, seed)
	case "C18":
		sc.Property = "C18"
		genC18(g, sc, tier)
	case "C20":
		sc.Property = "C20"
		if g.P(0.3) {
			sc.Knobs["provisionedID"] = 1 // the stores carry names given by an operator instead of generated numbers
		}
		c := g.baseStoreCfg(tier)
		c.PRestart, c.PNested = 0, 0
		c.NOps = g.Range(3, 12)
		sc.Datasets = c.Datasets
		extra := map[string]bool{} // datasets created and dropped between backup runs
		backedUp, reset := false, false
		for _, op := range g.GenStoreHistory(c) {
			sc.Ops = append(sc.Ops, op)
			x := g.r.Float64()
			switch {
			case x < 0.30:
				sc.Ops = append(sc.Ops, Op{K: "backup"})
				backedUp = true
				if g.P(0.5) {
					sc.Ops = append(sc.Ops, Op{K: "restoreCheck"})
				}
			case x < 0.42:
				sc.Ops = append(sc.Ops, Op{K: "restart"})
			case x < 0.47:
				sc.Ops = append(sc.Ops, Op{K: "foreignBackup", N: g.Intn(2)})
			case x < 0.50 && backedUp:
				// somebody's full sync is open on one of the datasets when the next runs are due
				sc.Ops = append(sc.Ops, Op{K: "fullsyncStart", DS: g.Pick(c.Datasets)})
			case x < 0.62:
				// dataset management between backup runs: what a backup run sees first may be a dataset
				// record, a deleted-datasets set or a namespace mapping, not an entity
				if g.P(0.5) {
					// the management operation is the very first commit after a backup run
					sc.Ops = append(sc.Ops, Op{K: "backup"})
					backedUp = true
				}
				switch {
				case !extra["dsX"] && !extra["dsY"]:
					extra["dsX"] = true
					sc.Ops = append(sc.Ops, Op{K: "createDataset", DS: "dsX"})
					if g.P(0.6) {
						sc.Ops = append(sc.Ops, Op{K: "batch", DS: "dsX", Ents: []Ent{g.freshEnt(c, g.Pick(c.Pool))}})
					}
				case extra["dsX"] && g.P(0.4):
					delete(extra, "dsX")
					extra["dsY"] = true
					sc.Ops = append(sc.Ops, Op{K: "renameDataset", DS: "dsX", DS2: "dsY"})
				default:
					d := "dsX"
					if extra["dsY"] {
						d = "dsY"
					}
					delete(extra, d)
					sc.Ops = append(sc.Ops, Op{K: "deleteDataset", DS: d})
				}
				if g.P(0.5) {
					sc.Ops = append(sc.Ops, Op{K: "backup"}, Op{K: "restoreCheck"})
					backedUp = true
				}
			case x < 0.66 && backedUp && !reset && len(extra) == 0:
				// the store is wiped (DELETE /datasets) and the hub restarted: a new store, the old backup is not its
				reset = true
				sc.Ops = append(sc.Ops, Op{K: "resetStore"}, Op{K: "backup"})
			}
		}
		sc.Ops = append(sc.Ops, Op{K: "backup"}, Op{K: "restoreCheck"})
		if g.P(0.12) && !reset {
			sc.Ops = append(sc.Ops, Op{K: "moveBackupLocation"}, Op{K: "backup"}, Op{K: "restoreCheck"})
			return sc, nil
		}
		if g.P(0.2) && !reset {
			// after a completed run the hub is stopped and started, a dataset is deleted before anything else is
			// written, and the hub is stopped and started again (a clean stop each time): the next run has to carry
			// the deletion
			sc.Ops = append(sc.Ops, Op{K: "restart"}, Op{K: "deleteDataset", DS: sc.Datasets[len(sc.Datasets)-1]}, Op{K: "restart"}, Op{K: "backup"}, Op{K: "restoreCheck"})
			return sc, nil
		}
		if g.P(0.3) {
			sc.Ops = append(sc.Ops, Op{K: "foreignBackup", N: g.Intn(2)}, Op{K: "restoreCheck"})
		}
		if g.P(0.3) {
			// the location is taken over by another store while this hub keeps running (or restarts)
			sc.Ops = append(sc.Ops, Op{K: "takeover"})
			if g.P(0.3) {
				sc.Ops = append(sc.Ops, Op{K: "restart"})
			}
			sc.Ops = append(sc.Ops, Op{K: "backup"})
		}
	case "C19c":
		sc.Property = "C19"
		genC05(g, sc, tier)
		// more dataset management racing the writers
		names := []string{"mgrX", "mgrY"}
		for k := g.Range(1, 2); k > 0; k-- {
			var ops []Op
			for i := g.Range(2, 5); i > 0; i-- {
				switch g.Intn(4) {
				case 0, 1:
					ops = append(ops, Op{K: "createDataset", DS: g.Pick(names)})
				case 2:
					ops = append(ops, Op{K: "deleteDataset", DS: g.Pick(names)})
				default:
					ops = append(ops, Op{K: "renameDataset", DS: names[0], DS2: names[1]})
				}
			}
			sc.Tasks = append(sc.Tasks, ops)
		}
		if g.P(0.6) {
			// a client that keeps asking for the dataset list
			var ops []Op
			for i := g.Range(2, 6); i > 0; i-- {
				ops = append(ops, Op{K: "listDatasets"})
			}
			sc.Tasks = append(sc.Tasks, ops)
		}
		for ti := range sc.Tasks {
			if len(sc.Tasks[ti]) > 0 && isWrite(sc.Tasks[ti][0].K) && g.P(0.5) {
				ents := []Ent{{"id": g.Pick([]string{MkE + "e0", MkE + "e1", MkE + "m" + fmt.Sprint(ti)}), "props": map[string]any{MkS + "w": fmt.Sprintf("mgr%d", ti)}, "refs": map[string]any{}}}
				pos := g.Intn(len(sc.Tasks[ti]) + 1)
				op := Op{K: "batch", DS: g.Pick(names), Ents: ents}
				if g.P(0.35) {
					// the write comes as a transaction (POST /transactions, or a transform's ExecuteTransaction)
					op = Op{K: "txn", Parts: []Part{{DS: g.Pick(names), Ents: ents}}}
				}
				sc.Tasks[ti] = append(sc.Tasks[ti][:pos:pos], append([]Op{op}, sc.Tasks[ti][pos:]...)...)
			}
		}
	case "C19":
		sc.Property = "C19"
		genC07(g, sc, tier)
		sc.Faults, sc.Cuts = nil, nil
		delete(sc.Knobs, "allPoints")
		// public namespaces given, replaced or withdrawn (an empty list) after the creation
		for k := g.Range(0, 2); k > 0 && len(sc.Ops) > 0; k-- {
			at := g.Intn(len(sc.Ops)) + 1
			op := Op{K: "setPublicNamespaces", DS: g.Pick(sc.Datasets), A: [][]any{{ExE, ExS}, {ExE}, {}, {}}[g.Intn(4)]}
			if g.P(0.3) {
				op.M = map[string]any{"viaTxn": true}
			}
			sc.Ops = append(sc.Ops[:at:at], append([]Op{op}, sc.Ops[at:]...)...)
		}
		// settings on (re-)created datasets
		for i := range sc.Ops {
			if sc.Ops[i].K == "createDataset" {
				switch g.Intn(4) {
				case 0:
					sc.Ops[i].M = map[string]any{"proxy": "http://remote.example.org/datasets/x"}
				case 1:
					sc.Ops[i].M = map[string]any{"virtual": "ZnVuY3Rpb24gYnVpbGRfZW50aXRpZXMoKSB7fQ=="}
				case 2:
					sc.Ops[i].M = map[string]any{"publicNamespaces": []any{ExE, ExS}}
				}
			}
		}
		if g.P(0.012) {
			// a hub that has seen more than a thousand dataset names: datasets created late are deleted, created again and
			// written to like any other
			sc.Ops = []Op{{K: "createMany", N: 1005}, {K: "deleteDataset", DS: "many1003"}, {K: "deleteDataset", DS: "many0002"},
				{K: "createDataset", DS: "many1003"}, {K: "batch", DS: "many1003", Ents: []Ent{{"id": MkE + "m1", "props": map[string]any{}, "refs": map[string]any{}}}},
				{K: "deleteDataset", DS: "many1003"}, {K: "renameDataset", DS: "many1004", DS2: "many1004b"}}
			sc.Note = "many datasets"
		}
	case "C13":
		sc.Property = "C13"
		genC13(g, sc, tier)
	case "C13c":
		sc.Property = "C13"
		sc.Datasets = []string{"dsA", "dsB"}
		for w := g.Range(2, 3); w > 0; w-- {
			var ops []Op
			for i := g.Range(2, 5); i > 0; i-- {
				if g.P(0.4) {
					ops = append(ops, Op{K: "nsid", S: g.c13URI()})
				} else {
					e := Ent{"id": g.c13URI(), "props": map[string]any{MkS + "a0": g.scalar()}, "refs": map[string]any{"http://h.example.com/pred#rel": g.c13URI()}}
					op := Op{K: "batch", DS: g.Pick(sc.Datasets), Ents: []Ent{e}}
					if g.P(0.2) {
						// a batch the store rejects as a whole (nil reference), while other writers have identifiers in flight
						op.Ents = append(op.Ents, Ent{"id": g.c13URI(), "props": map[string]any{}, "refs": map[string]any{"http://h.example.com/pred#rel": nil}})
						op.M = map[string]any{"invalid": true}
					}
					ops = append(ops, op)
				}
			}
			sc.Tasks = append(sc.Tasks, ops)
		}
		for rd := g.Range(1, 2); rd > 0; rd-- {
			var ops []Op
			for i := g.Range(2, 6); i > 0; i-- {
				ops = append(ops, Op{K: "ctx", N: g.Intn(3)})
			}
			sc.Tasks = append(sc.Tasks, ops)
		}
		sc.Knobs["schedSeed"] = int64(g.r.Uint64() >> 1)
		sc.Knobs["preemptPct"] = int64(g.PickInt([]int{20, 50, 70}))
		sc.Knobs["preemptNsLock"] = 1 // every namespace-lock acquisition is a scheduling point
	case "C12x":
		sc.Property = "C12"
		genC12(g, sc, tier)
		// crash variant: no restarts/marks, crashes at the flush points and inside the compaction's WAL bytes
		var ops []Op
		for _, op := range sc.Ops {
			if op.K != "restart" && op.K != "mark" {
				ops = append(ops, op)
			}
		}
		sc.Ops = ops
		if g.P(0.5) {
			sc.Knobs["allPoints"] = 1
		} else {
			for k := g.Range(1, 4); k > 0; k-- {
				sc.Faults = append(sc.Faults, Fault{At: g.Pick([]string{"compact.beforeFlush", "compact.afterFlush"}), Hit: g.Range(1, 5), Kind: "crash"})
			}
		}
		for i, op := range sc.Ops {
			if op.K == "compact" {
				sc.Cuts = append(sc.Cuts, [2]int64{int64(i), 1000})
				for k := g.Range(1, 3); k > 0; k-- {
					sc.Cuts = append(sc.Cuts, [2]int64{int64(i), int64(g.Range(1, 999))})
				}
			}
		}
		sc.Knobs["maxStates"] = 12
	case "C05":
		sc.Property = "C05"
		genC05(g, sc, tier)
	case "C02c":
		sc.Property = "C02"
		genC02c(g, sc, tier)
	case "C04":
		sc.Property = "C04"
		genC04(g, sc, tier)
	case "C07":
		sc.Property = "C07"
		genC07(g, sc, tier)
	case "C04c":
		sc.Property = "C04"
		genC04c(g, sc, tier)
	case "C20c":
		sc.Property = "C20"
		genC20c(g, sc, tier)
	case "C09c":
		sc.Property = "C09"
		genC09c(g, sc, tier)
	case "C16c":
		sc.Property = "C16"
		genC16c(g, sc, tier)
	case "C07c":
		sc.Property = "C07"
		genC07c(g, sc, tier)
	case "C05h":
		sc.Property = "C05"
		genC05h(g, sc, tier)
	case "C13j":
		sc.Property = "C13"
		genC13j(g, sc, tier)
	case "C07j":
		sc.Property = "C07"
		genC07j(g, sc, tier)
	case "C12h":
		sc.Property = "C12"
		genC12h(g, sc, tier)
	default:
		return genOther(g, sc, profile, tier)
	}
	return sc, nil
}

// uniqueMark makes every written version attributable to one operation.
func uniqueMark(ents []Ent, mark string) {
	for i, e := range ents {
		p, _ := e["props"].(map[string]any)
		if p == nil {
			p = map[string]any{}
			e["props"] = p
		}
		p[MkS+"w"] = fmt.Sprintf("%s.%d", mark, i)
	}
}

func genC05(g *G, sc *Scenario, tier string) {
	c := g.baseStoreCfg(tier)
	nds := g.Range(2, 3)
	c.Datasets = []string{"dsA", "dsB", "dsC"}[:nds]
	c.PNested = 0
	c.MaxBatch = g.Range(1, 3)
	sc.Datasets = c.Datasets
	m := NewModel()
	for _, d := range c.Datasets {
		m.Create(d)
	}
	nw := g.Range(2, 4)
	for w := 0; w < nw; w++ {
		var ops []Op
		n := g.Range(1, 4)
		for i := 0; i < n; i++ {
			mark := fmt.Sprintf("t%do%d", w, i)
			if g.P(0.55) {
				// transaction over 2..n datasets in a random order
				perm := g.r.Perm(len(c.Datasets))
				np := g.Range(2, len(c.Datasets))
				var parts []Part
				for _, pi := range perm[:np] {
					ents := g.batch(c, m, c.Datasets[pi])
					uniqueMark(ents, mark+c.Datasets[pi])
					parts = append(parts, Part{DS: c.Datasets[pi], Ents: ents})
				}
				if g.P(0.1) {
					// a transaction naming a dataset that does not exist must be rejected as a whole
					parts = append(parts, Part{DS: "ghost", Ents: []Ent{{"id": MkE + "g" + mark, "props": map[string]any{}, "refs": map[string]any{}}}})
					ops = append(ops, Op{K: "txn", Parts: parts, M: map[string]any{"invalid": true}})
					continue
				}
				if g.P(0.08) {
					// one part carries an entity the store must refuse (nil reference): the transaction is rejected as a whole
					k := g.Intn(len(parts))
					parts[k].Ents = append(parts[k].Ents, Ent{"id": MkE + "bad" + mark, "props": map[string]any{}, "refs": map[string]any{MkS + "p0": nil}})
					ops = append(ops, Op{K: "txn", Parts: parts, M: map[string]any{"invalid": true}})
					continue
				}
				if g.P(sc0(sc, "pCoreInTxn", 0.008)) {
					parts = append(parts, Part{DS: "core.Dataset", Ents: []Ent{{"id": MkE + "x", "props": map[string]any{MkS + "w": mark}, "refs": map[string]any{}}}})
				}
				if g.P(0.06) {
					// a transform lists every dataset it may write to, core.Dataset among them, and has nothing for it this time
					parts = append(parts, Part{DS: "core.Dataset"})
				}
				ops = append(ops, Op{K: "txn", Parts: parts})
			} else {
				ds := g.Pick(c.Datasets)
				ents := g.batch(c, m, ds)
				uniqueMark(ents, mark)
				if g.P(0.4) {
					// an identifier (and a reference target) nobody has used before: new URI -> id mappings
					ents = append(ents, Ent{"id": MkE + "n" + mark, "props": map[string]any{MkS + "w": mark + ".new"}, "refs": map[string]any{MkS + "p0": MkE + "r" + mark}})
				}
				op := Op{K: "batch", DS: ds, Ents: ents}
				if g.P(0.12) {
					// a batch the store must reject as a whole (nil reference)
					bad := Ent{"id": MkE + "bad" + mark, "props": map[string]any{}, "refs": map[string]any{MkS + "p0": nil}}
					pos := g.Intn(len(op.Ents) + 1)
					op.Ents = append(op.Ents[:pos:pos], append([]Ent{bad}, op.Ents[pos:]...)...)
					op.M = map[string]any{"invalid": true}
				}
				ops = append(ops, op)
			}
			if g.P(0.15) {
				ops[len(ops)-1].Sleep = int64(g.PickInt([]int{1, 5, 2000}))
			}
		}
		sc.Tasks = append(sc.Tasks, ops)
	}
	if g.P(0.3) && len(sc.Tasks) >= 2 {
		// two clients create the same new dataset at the same time and then write to it
		name := "raceA"
		perm := g.r.Perm(len(sc.Tasks))
		for k, ti := range perm[:2] {
			pre := []Op{{K: "createDataset", DS: name, M: map[string]any{"race": true}},
				{K: "batch", DS: name, Ents: []Ent{{"id": fmt.Sprintf("%src%d", MkE, k), "props": map[string]any{MkS + "w": fmt.Sprintf("race%d", k)}, "refs": map[string]any{}}}}}
			sc.Tasks[ti] = append(pre, sc.Tasks[ti]...)
		}
	}
	nr := g.Range(0, 2)
	for rr := 0; rr < nr; rr++ {
		var ops []Op
		n := g.Range(2, 6)
		for i := 0; i < n; i++ {
			switch g.Intn(3) {
			case 0:
				var scope []any
				if g.P(0.5) {
					for _, d := range c.Datasets {
						if g.P(0.7) {
							scope = append(scope, d)
						}
					}
				}
				ops = append(ops, Op{K: "lookup", S: g.Pick(c.Pool), A: scope})
			case 1:
				ops = append(ops, Op{K: "list", DS: g.Pick(c.Datasets), Limit: g.PickInt([]int{0, 0, 2})})
			default:
				ops = append(ops, Op{K: "feed", DS: g.Pick(c.Datasets), Limit: g.PickInt([]int{0, 0, 3})})
			}
		}
		sc.Tasks = append(sc.Tasks, ops)
	}
	if g.P(0.35) {
		// a manager task working on its own datasets, which a writer may also touch
		var ops []Op
		names := []string{"mgrX", "mgrY"}
		n := g.Range(1, 4)
		for i := 0; i < n; i++ {
			switch g.Intn(3) {
			case 0:
				ops = append(ops, Op{K: "createDataset", DS: g.Pick(names)})
			case 1:
				ops = append(ops, Op{K: "deleteDataset", DS: g.Pick(names)})
			default:
				ops = append(ops, Op{K: "renameDataset", DS: names[0], DS2: names[1]})
			}
		}
		sc.Tasks = append(sc.Tasks, ops)
		if g.P(0.6) {
			ents := []Ent{{"id": g.Pick(c.Pool), "props": map[string]any{MkS + "w": "mgrwrite"}, "refs": map[string]any{}}}
			sc.Tasks[0] = append(sc.Tasks[0], Op{K: "batch", DS: g.Pick(names), Ents: ents})
		}
	}
	sc.Knobs["schedSeed"] = int64(g.r.Uint64() >> 1)
	sc.Knobs["preemptPct"] = int64(g.PickInt([]int{2, 10, 20, 35, 50}))
}

func sc0(sc *Scenario, k string, def float64) float64 { return def }

func hashStr(s string) uint64 {
	var h uint64 = 1469598103934665603
	for i := 0; i < len(s); i++ {
		h ^= uint64(s[i])
		h *= 1099511628211
	}
	return h
}

// Execute dispatches a scenario to the executor of its profile.
func Execute(sc *Scenario) *Verdict {
	switch sc.Profile {
	case "C01", "C02", "C03", "C06", "C12":
		return RunStoreScenario(sc)
	case "C09":
		return RunHTTPScenario(sc)
	case "C16":
		return RunSecScenario(sc)
	case "C14":
		return RunRestartScenario(sc)
	case "C11":
		return RunC11Scenario(sc)
	case "C15":
		return RunC15Scenario(sc)
	case "C12h":
		return RunC12HTTPScenario(sc)
	case "C08", "C10", "C17", "C18", "C13j", "C07j":
		return RunJobScenario(sc)
	case "C05", "C02c", "C12c", "C13c", "C19c", "C07c":
		return RunConcScenario(sc)
	case "C04", "C07", "C12x", "C13", "C19", "C20":
		return RunCrashScenario(sc)
	case "C04c", "C20c":
		return RunConcCrashScenario(sc)
	case "C09c":
		return RunC09cScenario(sc)
	case "C16c":
		return RunSecConcScenario(sc)
	case "C05h":
		return RunC05hScenario(sc)
	}
	return execOther(sc)
}

func genOther(g *G, sc *Scenario, profile, tier string) (*Scenario, error) {
	return nil, fmt.Errorf("unknown profile %q", profile)
}

func execOther(sc *Scenario) *Verdict {
	return &Verdict{Verdict: "error", Message: "unknown profile " + sc.Profile, Seed: sc.Seed}
}

// genC02c: concurrent writers on one or two datasets interleaved with token-carrying readers.
func genC02c(g *G, sc *Scenario, tier string) {
	c := g.baseStoreCfg(tier)
	c.Datasets = []string{"dsA", "dsB"}[:g.Range(1, 2)]
	c.PNested = 0
	c.MaxBatch = g.Range(1, 3)
	sc.Datasets = c.Datasets
	m := NewModel()
	for _, d := range c.Datasets {
		m.Create(d)
	}
	nw := g.Range(2, 3)
	// a third of the runs: writers (batches and transactions) that keep storing the same few values, so that a write
	// is identical to the current version or not depending on who committed last
	flip := g.P(0.35)
	for w := 0; w < nw; w++ {
		var ops []Op
		n := g.Range(1, 4)
		for i := 0; i < n; i++ {
			mark := fmt.Sprintf("t%do%d", w, i)
			if flip {
				mk := func() []Ent {
					var ents []Ent
					for k := g.Range(1, 2); k > 0; k-- {
						ents = append(ents, Ent{"id": c.Pool[g.Intn(2)], "props": map[string]any{MkS + "w": g.Pick([]string{"a", "b"})}, "refs": map[string]any{}})
					}
					return ents
				}
				if g.P(0.5) {
					var parts []Part
					for _, d := range c.Datasets {
						if len(parts) == 0 || g.P(0.5) {
							parts = append(parts, Part{DS: d, Ents: mk()})
						}
					}
					ops = append(ops, Op{K: "txn", Parts: parts})
				} else {
					ops = append(ops, Op{K: "batch", DS: c.Datasets[0], Ents: mk()})
				}
				continue
			}
			if len(c.Datasets) > 1 && g.P(0.3) {
				var parts []Part
				for _, d := range c.Datasets {
					ents := g.batch(c, m, d)
					uniqueMark(ents, mark+d)
					parts = append(parts, Part{DS: d, Ents: ents})
				}
				ops = append(ops, Op{K: "txn", Parts: parts})
			} else {
				ds := c.Datasets[0]
				if g.P(0.25) {
					ds = g.Pick(c.Datasets)
				}
				ents := g.batch(c, m, ds)
				uniqueMark(ents, mark)
				ops = append(ops, Op{K: "batch", DS: ds, Ents: ents})
			}
		}
		sc.Tasks = append(sc.Tasks, ops)
	}
	nr := g.Range(1, 2)
	for rr := 0; rr < nr; rr++ {
		var ops []Op
		latest := g.P(0.3)
		ds := c.Datasets[0]
		n := g.Range(3, 9)
		for i := 0; i < n; i++ {
			ops = append(ops, Op{K: "readTok", DS: ds, Latest: latest, Limit: g.PickInt([]int{0, 0, 1, 2, 3})})
		}
		sc.Tasks = append(sc.Tasks, ops)
	}
	sc.Knobs["schedSeed"] = int64(g.r.Uint64() >> 1)
	sc.Knobs["preemptPct"] = int64(g.PickInt([]int{10, 20, 35, 50, 70}))
}

// genC04: short write histories with crashes at named points, at WAL byte offsets and injected
// commit errors.
func genC04(g *G, sc *Scenario, tier string) {
	c := g.baseStoreCfg(tier)
	c.NOps = g.Range(2, 7)
	c.PRestart = 0
	c.PNested = 0
	c.PTxn = 0.35
	if len(c.Datasets) < 2 && g.P(0.7) {
		c.Datasets = []string{"dsA", "dsB"}
	}
	sc.Datasets = c.Datasets
	sc.Ops = g.GenStoreHistory(c)
	for i := range sc.Ops {
		if sc.Ops[i].K == "txn" && g.P(0.3) {
			sc.Ops[i].K = "ctxtxn"
		}
		if (sc.Ops[i].K == "txn" || sc.Ops[i].K == "ctxtxn") && g.P(0.15) {
			// the transaction also writes an entity of its own into core.Dataset (unusual, but a dataset like any other):
			// all of its parts or none of them
			e := Ent{"id": MkE + "inCore", "props": map[string]any{c.PropKeys[0]: fmt.Sprintf("t%d", i)}, "refs": map[string]any{}}
			sc.Ops[i].Parts = append(sc.Ops[i].Parts, Part{DS: "core.Dataset", Ents: []Ent{e}})
		}
	}
	if g.P(0.06) {
		// a batch larger than what the store takes in one transaction (with or without an entity it must refuse at the
		// end): all of it or nothing of it, also when the process dies half way
		big := strings.Repeat("x", 140<<10)
		var ents []Ent
		for k := 0; k < 10; k++ {
			ents = append(ents, Ent{"id": fmt.Sprintf("%sbig%d", MkE, k), "props": map[string]any{MkS + "blob": big + fmt.Sprint(k)}, "refs": map[string]any{}})
		}
		op := Op{K: "batch", DS: g.Pick(c.Datasets), Ents: ents, M: map[string]any{"mayReject": true}}
		if g.P(0.5) {
			op.Ents = append(op.Ents, Ent{"id": MkE + "bigbad", "props": map[string]any{}, "refs": map[string]any{MkS + "p0": nil}})
		}
		at := g.Intn(len(sc.Ops) + 1)
		sc.Ops = append(sc.Ops[:at:at], append([]Op{op}, sc.Ops[at:]...)...)
	}
	if len(c.Datasets) > 1 && g.P(0.04) {
		// a transaction that is refused because of its last dataset's share, after an entity with a reference to more
		// than a thousand others has been stored for an earlier dataset (either dataset may come first): nothing stays
		var targets []any
		for k := 0; k < 1200; k++ {
			targets = append(targets, fmt.Sprintf("%swt%04d", MkE, k))
		}
		for _, order := range [][2]string{{c.Datasets[0], c.Datasets[1]}, {c.Datasets[1], c.Datasets[0]}} {
			hub := Ent{"id": MkE + "wide", "props": map[string]any{}, "refs": map[string]any{c.Preds[0]: targets}}
			bad := Ent{"id": MkE + "bad", "props": map[string]any{}, "refs": map[string]any{c.Preds[0]: nil}}
			sc.Ops = append(sc.Ops, Op{K: "txn", M: map[string]any{"mayReject": true, "wide": true}, Parts: []Part{{DS: order[0], Ents: []Ent{hub}}, {DS: order[1], Ents: []Ent{bad}}}})
		}
	}
	// named crash points
	if g.P(0.15) {
		sc.Knobs["allPoints"] = 1
	} else {
		n := g.Range(0, 4)
		for i := 0; i < n; i++ {
			sc.Faults = append(sc.Faults, Fault{At: g.Pick(crashablePoints), Hit: g.Range(1, 2*len(sc.Ops)), Kind: "crash"})
		}
	}
	// injected commit errors
	if g.P(0.3) {
		pt := g.Pick([]string{"StoreEntities.idCommit", "StoreEntities.dataCommit", "ExecuteTransaction.dataCommit"})
		sc.Faults = append(sc.Faults, Fault{At: "fault:" + pt, Hit: g.Range(1, 4), Kind: "error"})
	}
	// WAL-prefix crashes
	for i := range sc.Ops {
		if g.P(0.5) {
			sc.Cuts = append(sc.Cuts, [2]int64{int64(i), 1000})
		}
		if g.P(0.5) {
			sc.Cuts = append(sc.Cuts, [2]int64{int64(i), 999})
		}
		for k := g.Intn(3); k > 0; k-- {
			sc.Cuts = append(sc.Cuts, [2]int64{int64(i), int64(g.Range(1, 998))})
		}
	}
	sc.Knobs["maxStates"] = 14
}

// genC07: writes to datasets sharing ids and references, interleaved with delete / rename /
// re-create, garbage collection and restarts; crashes inside the management operations.
func genC07(g *G, sc *Scenario, tier string) {
	c := g.baseStoreCfg(tier)
	c.Datasets = []string{"dsA", "dsB", "dsC"}
	c.PRestart, c.PNested, c.PTxn = 0, 0, 0.2
	c.PRefHeavy = 0.7
	c.MaxBatch = g.Range(1, 4)
	sc.Datasets = c.Datasets
	m := NewModel()
	for _, d := range c.Datasets {
		m.Create(d)
	}
	allNames := []string{"dsA", "dsB", "dsC", "dsD"}
	n := g.Range(4, 14)
	var mgmtOps []int
	for i := 0; i < n; i++ {
		live := m.Names()
		x := g.r.Float64()
		switch {
		case x < 0.18 && len(live) > 1:
			d := g.Pick(live)
			m.Drop(d)
			sc.Ops = append(sc.Ops, Op{K: "deleteDataset", DS: d})
			mgmtOps = append(mgmtOps, len(sc.Ops)-1)
		case x < 0.30:
			var free []string
			for _, nme := range allNames {
				if m.DS[nme] == nil {
					free = append(free, nme)
				}
			}
			if len(free) > 0 {
				d := g.Pick(free)
				m.Create(d)
				op := Op{K: "createDataset", DS: d}
				switch g.Intn(5) {
				case 0:
					op.M = map[string]any{"publicNamespaces": []any{ExE, ExS}}
				case 1:
					op.M = map[string]any{"publicNamespaces": []any{ExE}, "virtual": "ZnVuY3Rpb24gYnVpbGRfZW50aXRpZXMoKSB7fQ=="}
				}
				sc.Ops = append(sc.Ops, op)
				mgmtOps = append(mgmtOps, len(sc.Ops)-1)
			}
		case x < 0.40 && len(live) > 0:
			var free []string
			for _, nme := range allNames {
				if m.DS[nme] == nil {
					free = append(free, nme)
				}
			}
			if len(free) > 0 {
				d, nw := g.Pick(live), g.Pick(free)
				m.Rename(d, nw)
				sc.Ops = append(sc.Ops, Op{K: "renameDataset", DS: d, DS2: nw})
				mgmtOps = append(mgmtOps, len(sc.Ops)-1)
			}
		case x < 0.50:
			sc.Ops = append(sc.Ops, Op{K: "gc"})
			mgmtOps = append(mgmtOps, len(sc.Ops)-1)
		case x < 0.56:
			sc.Ops = append(sc.Ops, Op{K: "restart"})
		default:
			if len(live) == 0 {
				continue
			}
			c.Datasets = live
			if len(live) > 1 && g.P(c.PTxn) {
				var parts []Part
				perm := g.r.Perm(len(live))
				for _, pi := range perm[:g.Range(1, len(live))] {
					ents := g.batch(c, m, live[pi])
					parts = append(parts, Part{DS: live[pi], Ents: ents})
					m.Batch(live[pi], ents)
				}
				sc.Ops = append(sc.Ops, Op{K: "txn", Parts: parts})
			} else {
				ds := g.Pick(live)
				ents := g.batch(c, m, ds)
				m.Batch(ds, ents)
				sc.Ops = append(sc.Ops, Op{K: "batch", DS: ds, Ents: ents})
			}
		}
	}
	// a client that keeps using a dataset handle it fetched earlier
	if g.P(0.35) && len(sc.Ops) > 3 {
		at := g.Intn(len(sc.Ops) / 2)
		name := g.Pick([]string{"dsA", "dsB", "dsC"})
		ops := append([]Op(nil), sc.Ops[:at]...)
		ops = append(ops, Op{K: "grab", DS: name})
		rest := sc.Ops[at:]
		nst := g.Range(1, 3)
		for i, op := range rest {
			ops = append(ops, op)
			if nst > 0 && g.P(float64(nst)/float64(len(rest)-i)) {
				ops = append(ops, Op{K: "batchStale", DS: name, Ents: []Ent{g.freshEnt(c, g.Pick(c.Pool))}})
				nst--
			}
		}
		sc.Ops = ops
		mgmtOps = nil
		for i, op := range sc.Ops {
			switch op.K {
			case "deleteDataset", "createDataset", "renameDataset", "gc":
				mgmtOps = append(mgmtOps, i)
			}
		}
	}
	pts := append(append([]string(nil), dsmPoints...), "StoreEntities.afterIDCommit", "StoreEntities.afterDataCommit", "updateDataset.beforeStore")
	if g.P(0.2) {
		sc.Knobs["allPoints"] = 1
	} else {
		for k := g.Range(0, 4); k > 0; k-- {
			sc.Faults = append(sc.Faults, Fault{At: g.Pick(pts), Hit: g.Range(1, 4), Kind: "crash"})
		}
	}
	for _, i := range mgmtOps {
		sc.Cuts = append(sc.Cuts, [2]int64{int64(i), 1000})
		for k := g.Range(1, 3); k > 0; k-- {
			sc.Cuts = append(sc.Cuts, [2]int64{int64(i), int64(g.Range(1, 999))})
		}
	}
	sc.Knobs["maxStates"] = 14
}

// genC12: histories with values flipping back and forth, references kept across property
// changes, delete/un-delete runs and legacy duplicate versions, then compaction with a small or
// large flush threshold, then more writes.
func genC12(g *G, sc *Scenario, tier string) {
	c := g.baseStoreCfg(tier)
	c.Datasets = []string{"dsA", "dsB"}[:g.Range(1, 2)]
	c.Pool = c.Pool[:min(len(c.Pool), 4)]
	c.PNested, c.PTxn = 0, 0.15
	c.PIdentic, c.PEqLen, c.PFlipDel = 0.1, 0.1, 0.2
	c.PRefHeavy = 0.7
	c.NOps = g.Range(4, 16)
	sc.Datasets = c.Datasets
	// flip-flop generator: small value alphabet makes v1, v2, v1 sequences frequent
	ops := g.GenStoreHistory(c)
	if g.P(0.5) {
		// the story of one reference: a few batches, each with one to three versions of the same entity that carry the
		// reference or not, are deleted or not, and differ in one property or not (versions of one batch share its stamp)
		d, id, tgt, pred := g.Pick(c.Datasets), g.Pick(c.Pool), g.Pick(c.Pool), g.Pick(c.Preds)
		var story []Op
		// each version differs from the one before in one (sometimes two) of: carries the reference, is deleted, value
		ref, del, val := true, false, "a"
		left := g.Range(4, 7)
		for left > 0 {
			var ents []Ent
			for k := g.Range(1, 3); k > 0 && left > 0; k-- {
				e := Ent{"id": id, "props": map[string]any{c.PropKeys[0]: val}, "refs": map[string]any{}}
				if ref {
					e["refs"].(map[string]any)[pred] = tgt
				}
				if del {
					e["deleted"] = true
				}
				ents = append(ents, e)
				left--
				for f := 1 + g.Intn(4)/3; f > 0; f-- {
					switch g.Intn(3) {
					case 0:
						ref = !ref
					case 1:
						del = !del
					default:
						val = map[string]string{"a": "b", "b": "a"}[val]
					}
				}
			}
			story = append(story, Op{K: "batch", DS: d, Ents: ents})
		}
		at := g.Intn(len(ops) + 1)
		ops = append(ops[:at:at], append(story, ops[at:]...)...)
	}
	marks := 0
	for _, op := range ops {
		sc.Ops = append(sc.Ops, op)
		if g.P(0.3) {
			sc.Ops = append(sc.Ops, Op{K: "dup", DS: g.Pick(c.Datasets), S: g.Pick(c.Pool)})
		}
		if marks < 3 && g.P(0.15) {
			sc.Ops = append(sc.Ops, Op{K: "mark"})
			marks++
		}
		if g.P(0.2) {
			sc.Ops = append(sc.Ops, Op{K: "compact", DS: g.Pick(c.Datasets), N: g.PickInt([]int{1, 1, 2, 3, 100000})})
		}
	}
	if g.P(0.04) {
		// a long change log behind the duplicates: a few hundred entities written once each, in this dataset and the next
		for _, d := range c.Datasets {
			var many []Ent
			for k := 0; k < 260; k++ {
				many = append(many, Ent{"id": fmt.Sprintf("%slong%s%03d", MkE, d, k), "props": map[string]any{c.PropKeys[0]: float64(k)}, "refs": map[string]any{}})
			}
			sc.Ops = append(sc.Ops, Op{K: "batch", DS: d, Ents: many})
		}
		sc.Ops = append(sc.Ops, Op{K: "dup", DS: c.Datasets[0], S: g.Pick(c.Pool)})
		sc.Note = "long change log"
	}
	sc.Ops = append(sc.Ops, Op{K: "compact", DS: c.Datasets[0], N: g.PickInt([]int{1, 2, 3, 100000})})
	if g.P(0.5) {
		sc.Ops = append(sc.Ops, Op{K: "restart"})
	}
}

// genC12c: a compaction task racing one or two writers on the same dataset.
func genC12c(g *G, sc *Scenario, tier string) {
	c := g.baseStoreCfg(tier)
	c.Datasets = []string{"dsA"}
	c.Pool = c.Pool[:min(len(c.Pool), 3)]
	c.PNested, c.PTxn, c.PRestart = 0, 0, 0
	c.PIdentic, c.PFlipDel = 0.15, 0.2
	c.MaxBatch = g.Range(1, 3)
	sc.Datasets = c.Datasets
	m := NewModel()
	m.Create("dsA")
	n := g.Range(3, 9)
	for i := 0; i < n; i++ {
		ents := g.batch(c, m, "dsA")
		m.Batch("dsA", ents)
		sc.Ops = append(sc.Ops, Op{K: "batch", DS: "dsA", Ents: ents})
		if g.P(0.5) {
			id := g.Pick(c.Pool)
			sc.Ops = append(sc.Ops, Op{K: "dup", DS: "dsA", S: id})
			if cur := m.DS["dsA"].LatestOf(markerToFull(id)); cur != nil {
				m.DS["dsA"].ForceAppend(cur)
			}
		}
	}
	coreStory := g.P(0.2)
	if coreStory {
		// the catalogue is compacted (its entry for dsA ends in a legacy duplicate) while transactions that name
		// core.Dataset without having anything for it add entities to dsA, which moves dsA's counter in the catalogue
		sc.Ops = append(sc.Ops, Op{K: "dupCore", DS: "dsA"})
		sc.Tasks = append(sc.Tasks, []Op{{K: "compact", DS: "core.Dataset", N: 1}})
		var ops []Op
		for i := g.Range(1, 2); i > 0; i-- {
			e := Ent{"id": fmt.Sprintf("%scat%d", MkE, i), "props": map[string]any{MkS + "a0": float64(i)}, "refs": map[string]any{}}
			m.Batch("dsA", []Ent{e})
			ops = append(ops, Op{K: "txn", Parts: []Part{{DS: "dsA", Ents: []Ent{e}}, {DS: "core.Dataset"}}})
		}
		sc.Tasks = append(sc.Tasks, ops)
		sc.Note = "catalogue compacted while transactions move a counter"
	} else {
		sc.Tasks = append(sc.Tasks, []Op{{K: "compact", DS: "dsA", N: g.PickInt([]int{1, 1, 2, 3})}})
	}
	heldHandle := 0
	if g.P(0.2) {
		// the dataset was renamed and given its name back; the writers resolved it before that (an upload keeps its
		// handle for all batches of its body) and write through the handle they hold
		sc.Ops = append(sc.Ops, Op{K: "renameRound", DS: "dsA", DS2: "dsTmp"})
		heldHandle = 1
		sc.Note = "writers hold a handle from before a rename"
	}
	nw := g.Range(1, 2)
	if coreStory {
		nw = 0 // (any other writer's new entity would move the counter first and bury the duplicate)
	}
	for w := 0; w < nw; w++ {
		var ops []Op
		for i := g.Range(1, 3); i > 0; i-- {
			ents := g.batch(c, m, "dsA")
			ops = append(ops, Op{K: "batch", DS: "dsA", Ents: ents, N: heldHandle})
		}
		sc.Tasks = append(sc.Tasks, ops)
	}
	// followers of the latest-only feed: a few entries per page, from the start
	for rd := g.Range(0, 2); rd > 0; rd-- {
		var ops []Op
		for i := g.Range(2, 6); i > 0; i-- {
			ops = append(ops, Op{K: "readTok", DS: "dsA", Latest: true, Limit: g.PickInt([]int{1, 1, 2, 3, 0})})
		}
		sc.Tasks = append(sc.Tasks, ops)
	}
	// readers going through the whole change feed, forwards in one call and backwards entry by entry
	for rd := g.Range(0, 2); rd > 0; rd-- {
		var ops []Op
		for i := g.Range(1, 3); i > 0; i-- {
			ops = append(ops, Op{K: "scan", DS: "dsA", Latest: g.P(0.6)})
		}
		sc.Tasks = append(sc.Tasks, ops)
	}
	sc.Knobs["schedSeed"] = int64(g.r.Uint64() >> 1)
	sc.Knobs["preemptPct"] = int64(g.PickInt([]int{20, 35, 50, 70}))
}

var c13Namespaces = []string{
	"http://Data.Example.ORG/People/", "http://data.example.org/People/",
	"http://data.example.org/things/", "http://a.example.com/x#", "https://b.example.com/p/q/", "http://c.example.com/v1/t#frag/",
	"http://d.example.com/", "https://e.example.com/a#", "http://f.example.com/deep/er/path/", "http://g.example.com/base#",
}
var c13Locals = []string{"k1", "k2", "k3", "", "c:d", "e:f:g", "9", "Name-With.Dots"}

func (g *G) c13URI() string { return g.Pick(c13Namespaces) + g.Pick(c13Locals) }

// genC13: identifiers of many URI shapes, first used in different orders by round trips and by
// writes to different datasets, with restarts, crashes and context-aliasing probes.
func genC13(g *G, sc *Scenario, tier string) {
	sc.Datasets = []string{"dsA", "dsB"}
	n := g.Range(4, 14)
	fresh := 0
	for i := 0; i < n; i++ {
		x := g.r.Float64()
		switch {
		case x < 0.27:
			sc.Ops = append(sc.Ops, Op{K: "nsid", S: g.c13URI()})
		case x < 0.35:
			u := g.c13URI()
			if g.P(0.5) {
				fresh++
				u = fmt.Sprintf("http://looked%d.example.com/up/%s", fresh, g.Pick([]string{"k1", "k2", "Name-With.Dots"}))
			}
			sc.Ops = append(sc.Ops, Op{K: "lookupURI", S: u})
			if g.P(0.5) {
				// the same namespace is then used by a write, and the hub is stopped and started
				sc.Ops = append(sc.Ops, Op{K: "batch", DS: g.Pick(sc.Datasets), Ents: []Ent{{"id": u, "props": map[string]any{MkS + "a0": g.scalar()}, "refs": map[string]any{}}}})
				if g.P(0.6) {
					sc.Ops = append(sc.Ops, Op{K: "restart"})
				}
			}
		case x < 0.43:
			sc.Ops = append(sc.Ops, Op{K: "restart"})
		case x < 0.55:
			fresh++
			sc.Ops = append(sc.Ops, Op{K: "alias", S: fmt.Sprintf("http://fresh%d.example.com/ns/", fresh)})
		default:
			var ents []Ent
			for k := g.Range(1, 3); k > 0; k-- {
				e := Ent{"id": g.c13URI(), "props": map[string]any{MkS + "a0": g.scalar()}, "refs": map[string]any{}}
				if e["id"] == "" {
					continue
				}
				if g.P(0.5) {
					e["refs"].(map[string]any)[g.Pick([]string{MkS + "p0", "http://h.example.com/pred#rel", "https://b.example.com/p/q/likes"})] = g.c13URI()
				}
				ents = append(ents, e)
			}
			sc.Ops = append(sc.Ops, Op{K: "batch", DS: g.Pick(sc.Datasets), Ents: ents})
		}
	}
	if g.P(0.3) {
		sc.Knobs["allPoints"] = 1
	} else {
		for k := g.Range(0, 3); k > 0; k-- {
			sc.Faults = append(sc.Faults, Fault{At: g.Pick(crashablePoints), Hit: g.Range(1, 6), Kind: "crash"})
		}
	}
	for i, op := range sc.Ops {
		if op.K == "batch" || op.K == "nsid" || op.K == "alias" {
			if g.P(0.4) {
				sc.Cuts = append(sc.Cuts, [2]int64{int64(i), 1000})
			}
			if g.P(0.5) {
				sc.Cuts = append(sc.Cuts, [2]int64{int64(i), int64(g.Range(1, 999))})
			}
		}
	}
	sc.Knobs["maxStates"] = 10
}

func jobConfig(id string, source, sink, transform map[string]any, jobType string, batch int) map[string]any {
	cfg := map[string]any{
		"id": id, "title": id, "source": source, "sink": sink, "paused": true, "batchSize": batch,
		"triggers": []any{map[string]any{"triggerType": "cron", "jobType": jobType, "schedule": "@every 8760h"}},
	}
	if transform != nil {
		cfg["transform"] = transform
	}
	return cfg
}

// genC08: source histories interleaved with job runs; faults inside the runs.
func genC08(g *G, sc *Scenario, tier string) {
	c := g.baseStoreCfg(tier)
	c.PNested, c.PTxn, c.PRestart = 0, 0, 0
	nsrc := g.Range(1, 3)
	srcs := []string{"srcA", "srcB", "srcC"}[:nsrc]
	sc.Datasets = append(append([]string{}, srcs...), "sink")
	c.Datasets = srcs
	jobType := g.Pick([]string{"incremental", "incremental", "fullsync"})
	batch := g.Range(1, 5)
	var source map[string]any
	latestOnly := g.P(0.4)
	if nsrc == 1 {
		source = map[string]any{"Type": "DatasetSource", "Name": srcs[0], "LatestOnly": latestOnly}
	} else {
		var l []any
		for _, s := range srcs {
			l = append(l, map[string]any{"Name": s, "LatestOnly": latestOnly})
		}
		source = map[string]any{"Type": "UnionDatasetSource", "DatasetSources": l}
	}
	sc.Ops = append(sc.Ops, Op{K: "addJob", M: jobConfig("job1", source, map[string]any{"Type": "DatasetSink", "Name": "sink"}, nil, jobType, batch)})
	m := NewModel()
	for _, d := range srcs {
		m.Create(d)
	}
	// disjoint id pools per source in most runs, overlapping in some
	overlap := g.P(0.3)
	pools := map[string][]string{}
	for i, s := range srcs {
		if overlap {
			pools[s] = c.Pool
		} else {
			pools[s] = poolNames(MkE, fmt.Sprintf("s%d_", i), g.Range(2, 4))
		}
	}
	full := c.Pool
	points := []string{"pipeline.incr.afterSink", "pipeline.incr.afterToken"}
	if jobType == "fullsync" {
		points = []string{"pipeline.full.afterStart", "pipeline.full.afterBatch", "pipeline.full.beforeEnd", "pipeline.full.afterEnd"}
	}
	viaTrigger := g.P(0.2)
	if viaTrigger {
		// the runs of this scenario are started by the job's own cron trigger: pipeline, source and sink objects live
		// across the runs (and across a sink dataset that is deleted and created again between two fullsync runs)
		sc.Knobs["viaTrigger"] = 1
		for i := range sc.Ops {
			if sc.Ops[i].K == "addJob" {
				sc.Ops[i].M["paused"] = false
				sc.Ops[i].M["triggers"] = []any{map[string]any{"triggerType": "cron", "jobType": jobType, "schedule": "@every 10m"}}
			}
		}
	}
	rounds := g.Range(1, 4)
	for rd := 0; rd < rounds; rd++ {
		if viaTrigger && jobType == "fullsync" && rd > 0 && g.P(0.5) {
			sc.Ops = append(sc.Ops, Op{K: "recreateSink", S: "job1"})
		}
		for w := g.Range(1, 4); w > 0; w-- {
			ds := g.Pick(srcs)
			c.Pool = pools[ds]
			ents := g.batch(c, m, ds)
			m.Batch(ds, ents)
			sc.Ops = append(sc.Ops, Op{K: "batch", DS: ds, Ents: ents})
		}
		c.Pool = full
		if viaTrigger && jobType == "incremental" && rd > 0 && g.P(0.5) {
			// between two runs of the incremental trigger a client runs the same job as a fullsync through the
			// HTTP run operation, and that run fails or is killed after it has turned the sink back to old versions
			ms := map[string]any{"manual": true}
			if g.P(0.5) {
				ms["sinkFailAt"] = g.Range(2, 4)
			} else {
				ms["killPoint"], ms["killAt"] = "pipeline.full.afterBatch", g.Range(1, 3)
			}
			sc.Ops = append(sc.Ops, Op{K: "run", S: "job1", DS: "fullsync", M: ms})
		}
		spec := map[string]any{}
		x := g.r.Float64()
		// the HTTP run operation lets a client run a job as either type, whatever its trigger says
		runType := jobType
		if g.P(0.25) && !viaTrigger {
			runType = g.Pick([]string{"incremental", "fullsync"})
		}
		pts := []string{"pipeline.incr.afterSink", "pipeline.incr.afterToken"}
		if runType == "fullsync" {
			pts = []string{"pipeline.full.afterStart", "pipeline.full.afterBatch", "pipeline.full.beforeEnd", "pipeline.full.afterEnd"}
		}
		points = pts
		switch {
		case x < 0.12:
			spec["sinkFailAt"] = g.Range(1, 4)
		case x < 0.24:
			spec["sinkStoreFailAt"] = g.Range(1, 4)
		case x < 0.35 || (runType == "fullsync" && x > 0.88):
			spec["killPoint"], spec["killAt"] = g.Pick(points), g.Range(1, 3)
			if runType == "fullsync" && g.P(0.6) {
				// a fullsync run killed between two pages, after it has turned earlier pages back to old versions
				spec["killPoint"] = "pipeline.full.afterBatch"
			}
		case x < 0.6 && !viaTrigger:
			// (a crash state is opened as a second hub in the same process, and so is a restarted hub: the cron of
			// the first would go on firing into a closed store, so trigger-started scenarios do without both)
			spec["crashPoint"], spec["crashAt"] = g.Pick(points), g.Range(1, 3)
		}
		if g.P(0.15) && !viaTrigger {
			sc.Ops = append(sc.Ops, Op{K: "restart"})
		}
		sc.Ops = append(sc.Ops, Op{K: "run", S: "job1", DS: runType, M: spec})
		if len(spec) > 0 {
			if g.P(0.4) {
				// clients go on writing between the run that failed and the one that follows it
				for w := g.Range(1, 2); w > 0; w-- {
					ds := srcs[0]
					if g.P(0.4) {
						ds = g.Pick(srcs)
					}
					c.Pool = pools[ds]
					ents := g.batch(c, m, ds)
					m.Batch(ds, ents)
					sc.Ops = append(sc.Ops, Op{K: "batch", DS: ds, Ents: ents})
				}
				c.Pool = full
			}
			// a clean run after the faulty one must restore equality, and a further one adds nothing
			next := runType
			if (g.P(0.4) || (spec["killPoint"] != nil && g.P(0.5))) && !viaTrigger {
				next = "incremental"
			}
			sc.Ops = append(sc.Ops, Op{K: "run", S: "job1", DS: next, N: 1})
		} else if g.P(0.5) {
			sc.Ops[len(sc.Ops)-1].N = 1
		}
	}
}

func jsTransform(variant string) string {
	body := "out.push(e);"
	switch variant {
	case "drop":
		body = "if (GetProperty(e, s, \"drop\", false) === true) { continue; } out.push(e);"
	case "duplicate":
		body = "out.push(e); var d = NewEntityFrom(e, false, true, true); SetId(d, GetId(e) + \"-dup\"); out.push(d);"
	case "create":
		body = "out.push(e); var n = NewEntity(); SetId(n, GetId(e) + \"-new\"); SetProperty(n, s, \"of\", GetId(e)); out.push(n);"
	case "append":
		// the transform appends what it creates to the array it was given and returns that array
		code := "function transform_entities(entities) { var s = GetNamespacePrefix(\"" + ExS + "\"); var k = entities.length; for (var i = 0; i < k; i++) { var n = NewEntity(); SetId(n, GetId(entities[i]) + \"-new\"); SetProperty(n, s, \"of\", GetId(entities[i])); entities.push(n); } return entities; }"
		return base64.StdEncoding.EncodeToString([]byte(code))
	}
	code := "function transform_entities(entities) { var s = GetNamespacePrefix(\"" + ExS + "\"); var out = []; for (var i = 0; i < entities.length; i++) { var e = entities[i]; " + body + " } return out; }"
	return base64.StdEncoding.EncodeToString([]byte(code))
}

// genC10 walks the (entity count, batch size, parallelism) box systematically by seed index.
func genC10(g *G, sc *Scenario, tier string, seed uint64) {
	idx := int(seed % 10_000_000)
	count := idx % 15
	batch := 1 + (idx/15)%7
	par := 1 + (idx/105)%8
	k := idx / 840
	// variants and pipeline types rotate with the cell index, so that a quick run (one pass over the box)
	// meets all of them and 10 passes cover every cell with every variant and type
	variants := []string{"identity", "drop", "duplicate", "create", "append"}
	variant := variants[(idx+k)%5]
	jobType := []string{"incremental", "fullsync"}[(idx/5+k/5)%2]
	if k >= 10 {
		// beyond the systematic box: sampled larger values
		count = g.Range(15, 200)
		batch = g.Range(1, 60)
		par = g.Range(1, 16)
	}
	sc.Datasets = []string{"srcA", "sink"}
	cfg := jobConfig("job1", map[string]any{"Type": "DatasetSource", "Name": "srcA"}, map[string]any{"Type": "DatasetSink", "Name": "sink"},
		map[string]any{"Type": "JavascriptTransform", "Code": jsTransform(variant), "Parallelism": par}, jobType, batch)
	cfg["_variant"], cfg["_parallelism"] = variant, par
	viaHTTP := g.P(0.2)
	if viaHTTP {
		// the transform is a service behind an HttpTransform; its answers may be broken off
		if variant == "append" {
			variant = "create"
		}
		par = 1
		tr := map[string]any{"Type": "HttpTransform", "Url": "http://xf.sim/transform?v=" + variant, "SupportContext": g.P(0.4), "TimeOut": 2.0}
		cfg = jobConfig("job1", map[string]any{"Type": "DatasetSource", "Name": "srcA"}, map[string]any{"Type": "DatasetSink", "Name": "sink"}, tr, jobType, batch)
		cfg["_variant"], cfg["_parallelism"], cfg["_http"] = variant, par, true
		if g.P(0.4) {
			// the runs are started by the job's cron trigger, which has a log error handler: transform and sink
			// are wrapped by the handler's machinery
			sc.Knobs["viaTrigger"] = 1
			cfg["paused"] = false
			cfg["triggers"] = []any{map[string]any{"triggerType": "cron", "jobType": jobType, "schedule": "@every 10m",
				"onError": []any{map[string]any{"errorHandler": "log", "maxItems": float64(g.PickInt([]int{0, 1, 5}))}}}}
		}
	}
	if !viaHTTP && jobType == "incremental" && g.P(0.12) {
		// the job reads srcA through a proxy dataset whose remote returns all it has, whatever limit it is asked for
		sc.Datasets = append(sc.Datasets, "proxyP")
		cfg["source"] = map[string]any{"Type": "DatasetSource", "Name": "proxyP"}
		cfg["_src"] = "srcA"
	}
	sc.Ops = append(sc.Ops, Op{K: "addJob", M: cfg})
	mk := func(i int) Ent {
		e := Ent{"id": fmt.Sprintf("%sx%03d", MkE, i), "props": map[string]any{MkS + "n": float64(i)}, "refs": map[string]any{}}
		if g.P(0.3) {
			e["props"].(map[string]any)[MkS+"drop"] = true
		}
		return e
	}
	// the source entities arrive in 1-3 writes, the job runs after each
	left := count
	i := 0
	rounds := g.Range(1, 2)
	for rd := 0; rd < rounds; rd++ {
		n := left
		if rd < rounds-1 {
			n = g.Intn(left + 1)
		}
		var ents []Ent
		for ; n > 0; n-- {
			ents = append(ents, mk(i))
			i++
			left--
		}
		if len(ents) > 0 {
			// store in chunks so that a source write is not limited by anything
			sc.Ops = append(sc.Ops, Op{K: "batch", DS: "srcA", Ents: ents})
		}
		if viaHTTP && i > 0 && g.P(0.5) {
			// the service's answer to one of the run's requests is broken off, fails or comes too late
			n := len(ents)
			if jobType == "fullsync" {
				n = i
			}
			if n > 0 {
				kind := g.Pick([]string{"cutBoundary", "cutBoundary", "cutBoundaryErr", "cutAfterComma", "cutMid", "empty", "status", "connErr", "slow"})
				sc.Ops = append(sc.Ops, Op{K: "run", S: "job1", DS: jobType, M: map[string]any{"httpFault": map[string]any{"at": g.Range(1, (n+batch-1)/batch), "kind": kind}}})
			}
		}
		if len(ents) >= 2 && g.P(0.2) {
			// the job is killed while a transform worker is starting; the run after it has to make up for it
			sc.Ops = append(sc.Ops, Op{K: "run", S: "job1", DS: jobType, M: map[string]any{"killTransformAt": g.Range(1, len(ents))}})
		}
		sc.Ops = append(sc.Ops, Op{K: "run", S: "job1", DS: jobType, N: 1})
	}
	sc.Note = fmt.Sprintf("cell count=%d batch=%d parallelism=%d %s %s http=%v", count, batch, par, jobType, variant, viaHTTP)
}

// genC17 enumerates, by seed index, every subset of rejected entities for batches of 1-6
// entities, crossed with maxItems 0-3; beyond that box larger batches are sampled. Every fourth
// scenario adds a reRun handler, some use transient rejections or a sink that always fails.
func genC17(g *G, sc *Scenario, tier string, seed uint64) {
	idx := int(seed % 10_000_000)
	// cells: for n=1..6: 2^n masks; total 126 masks; x4 maxItems = 504 cells
	cell := idx % 504
	maxItems := cell / 126
	mcell := cell % 126
	n, mask := 1, 0
	for n = 1; n <= 6; n++ {
		if mcell < 1<<n {
			mask = mcell
			break
		}
		mcell -= 1 << n
	}
	round := idx / 504
	if round >= 4 {
		n = g.Range(7, 12)
		mask = int(g.r.Uint64() % (1 << uint(n)))
		maxItems = g.Intn(5)
	}
	big := idx%504 >= 480 && round%2 == 1 // a slice of every second round: large runs with many rejected entities
	overlap := idx%504 >= 456 && idx%504 < 480 && round%2 == 1
	if overlap {
		// failures of consecutive trigger runs inside one retry delay
		sc.Datasets = []string{"srcA", "sink"}
		sc.Knobs["observeLogs"] = 1
		onError := []any{map[string]any{"errorHandler": "reRun", "maxRetries": g.Range(1, 3), "retryDelay": g.PickInt([]int{700, 900, 1300})}}
		if g.P(0.5) {
			onError = append(onError, map[string]any{"errorHandler": "log"})
		}
		cfg := jobConfig("job1", map[string]any{"Type": "DatasetSource", "Name": "srcA"}, map[string]any{"Type": "DatasetSink", "Name": "sink"}, nil, "fullsync", 3)
		cfg["paused"] = false
		cfg["triggers"] = []any{map[string]any{"triggerType": "cron", "jobType": "fullsync", "schedule": "@every 10m", "onError": onError}}
		sc.Ops = append(sc.Ops, Op{K: "addJob", M: cfg})
		sc.Ops = append(sc.Ops, Op{K: "batch", DS: "srcA", Ents: []Ent{{"id": MkE + "x00", "props": map[string]any{}, "refs": map[string]any{}}, {"id": MkE + "x01", "props": map[string]any{}, "refs": map[string]any{}}}})
		sc.Ops = append(sc.Ops, Op{K: "tick", S: "job1", N: g.Range(2, 4), M: map[string]any{"sinkFailAlways": 1}})
		sc.Note = "overlapping failures within one retry delay"
		return
	}
	if big {
		n = g.Range(40, 200)
		maxItems = g.PickInt([]int{0, 0, 0, 50})
	}
	sc.Datasets = []string{"srcA", "sink"}
	sc.Knobs["observeLogs"] = 1
	jobType := "incremental"
	batch := n
	if round%2 == 1 {
		batch = g.Range(1, n)
	}
	onError := []any{map[string]any{"errorHandler": "log", "maxItems": maxItems}}
	spec := map[string]any{}
	withRerun := round%4 >= 2 || g.P(0.25) // (the quick tier walks rounds 0 and 1 only)
	if withRerun {
		onError = append(onError, map[string]any{"errorHandler": "reRun", "maxRetries": g.Range(0, 3), "retryDelay": g.PickInt([]int{0, 1, 5, 60})})
		if g.P(0.5) {
			jobType = "fullsync" // a fullsync re-reads everything, so a re-run meets the same rejections
		}
		if g.P(0.25) {
			spec["sinkFailAlways"] = 1
		}
	}
	if round%4 == 1 && g.P(0.5) {
		spec["rejectTimes"] = g.Range(1, 3)
	}
	cfg := jobConfig("job1", map[string]any{"Type": "DatasetSource", "Name": "srcA"}, map[string]any{"Type": "DatasetSink", "Name": "sink"}, nil, jobType, batch)
	cfg["paused"] = false
	cfg["triggers"] = []any{map[string]any{"triggerType": "cron", "jobType": jobType, "schedule": "@every 10m", "onError": onError}}
	sc.Ops = append(sc.Ops, Op{K: "addJob", M: cfg})
	var ents []Ent
	var rej []any
	every := g.Range(2, 6)
	for i := 0; i < n; i++ {
		id := fmt.Sprintf("%sx%03d", MkE, i)
		ents = append(ents, Ent{"id": id, "props": map[string]any{MkS + "n": float64(i)}, "refs": map[string]any{}})
		if (!big && mask&(1<<uint(i)) != 0) || (big && i%every == 0) {
			rej = append(rej, id)
		}
	}
	if big {
		batch = g.PickInt([]int{16, 32, 64, n})
		cfg["batchSize"] = batch
	}
	spec["rejectIds"] = rej
	killed := false
	if withRerun && !big && n >= 2 && g.P(0.25) {
		// an operator kills the job during its first run; nothing is rejected: a killed run is not run again
		killed = true
		spec = map[string]any{"killAtSink": g.Range(1, n-1)}
		cfg["batchSize"] = 1
		if g.P(0.4) {
			// the job reads its one dataset as a union of one
			cfg["source"] = map[string]any{"Type": "UnionDatasetSource", "DatasetSources": []any{map[string]any{"Name": "srcA"}}}
			sc.Note += " union-source"
		}
		if n >= 3 && g.P(0.5) {
			// ... or the first entity has been rejected (and reported by the log handler, which has no limit here) when
			// the kill comes: the run ends as killed all the same, and a killed run is not run again
			spec["killAtSink"] = g.Range(2, n-1)
			spec["rejectIds"] = []any{fmt.Sprintf("%sx%03d", MkE, 0)}
			onError[0].(map[string]any)["maxItems"] = 0
		}
	}
	if !killed && !big && !withRerun && jobType == "incremental" && g.P(0.2) {
		// a second trigger of the same job type (on change of the source) with its own log handler: each trigger's runs
		// report to, and stop at the limit of, their own handler. The cron trigger fires first (its limit is the cell's),
		// then new entities arrive and the onchange trigger fires
		m2 := g.Range(1, 2)
		trs := cfg["triggers"].([]any)
		cfg["triggers"] = append(trs, map[string]any{"triggerType": "onchange", "jobType": "incremental", "monitoredDataset": "srcA",
			"onError": []any{map[string]any{"errorHandler": "log", "maxItems": m2}}})
		sc.Ops = append(sc.Ops, Op{K: "batch", DS: "srcA", Ents: ents})
		sc.Ops = append(sc.Ops, Op{K: "tick", S: "job1", M: spec})
		var ents2 []Ent
		var rej2 []any
		for i := 0; i < 4; i++ {
			id := fmt.Sprintf("%sy%03d", MkE, i)
			ents2 = append(ents2, Ent{"id": id, "props": map[string]any{MkS + "n": float64(i)}, "refs": map[string]any{}})
			if i != 1 {
				rej2 = append(rej2, id)
			}
		}
		cfg["batchSize"] = 4
		sc.Ops = append(sc.Ops, Op{K: "batch", DS: "srcA", Ents: ents2})
		sc.Ops = append(sc.Ops, Op{K: "tick", S: "job1", M: map[string]any{"trigger": 1, "event": true, "rejectIds": rej2}})
		sc.Note = fmt.Sprintf("cell n=%d mask=%b maxItems=%d round=%d two-triggers", n, mask, maxItems, round)
		return
	}
	sc.Ops = append(sc.Ops, Op{K: "batch", DS: "srcA", Ents: ents})
	if g.P(0.15) {
		// the hub is stopped and started between the job's definition and its first run: the runs are those of the
		// definition as it was loaded from the store
		sc.Ops = append(sc.Ops, Op{K: "restart", N: 1})
		sc.Note += " restart-before-first-run"
	}
	if !killed && !big && jobType == "incremental" && intOf(spec, "rejectTimes") == 1 && len(rej) > 0 && g.P(0.5) {
		// the source corrects an entity the sink turns down once: the run meets the id twice, the first time rejected,
		// the second time acceptable
		id := fmt.Sprint(rej[0])
		sc.Ops = append(sc.Ops, Op{K: "batch", DS: "srcA", Ents: []Ent{{"id": id, "props": map[string]any{MkS + "n": float64(1000), MkS + "corrected": true}, "refs": map[string]any{}}}})
		sc.Note += " corrected-entity"
		cfg["batchSize"] = 1 // (the one rejection is then that of the entity alone)
	}
	sc.Ops = append(sc.Ops, Op{K: "tick", S: "job1", M: spec})
	if !killed && jobType == "incremental" && g.P(0.25) {
		// a later tick that finds nothing new at all: a success, whatever the run before it met
		sc.Ops = append(sc.Ops, Op{K: "tick", S: "job1", M: map[string]any{}})
	}
	if !killed && g.P(0.3) {
		// a later tick with nothing rejected: must succeed and must not re-run
		sc.Ops = append(sc.Ops, Op{K: "batch", DS: "srcA", Ents: []Ent{{"id": MkE + "later", "props": map[string]any{}, "refs": map[string]any{}}}})
		sc.Ops = append(sc.Ops, Op{K: "tick", S: "job1", M: map[string]any{}})
	}
	sc.Note = fmt.Sprintf("cell n=%d mask=%b maxItems=%d round=%d", n, mask, maxItems, round)
	if g.P(0.3) {
		// the same job with a pass-through transform: the handlers then wrap the transform as well as the sink
		cfg["transform"] = map[string]any{"Type": "JavascriptTransform", "Code": jsTransform("identity")}
		sc.Note += " transform"
	}
}

// genC18: a MultiSource job over a main dataset, 0-2 link datasets and a dependency dataset
// with a 1-3 hop join path of mixed directions; histories of main / link / dependency writes
// including re-wiring and deleting links; runs continued until the tokens stop changing.
func genC18(g *G, sc *Scenario, tier string) {
	hops := g.Range(1, 3)
	chain := []string{"dep"}
	for i := 1; i < hops; i++ {
		chain = append(chain, fmt.Sprintf("link%d", i))
	}
	chain = append(chain, "main")
	sc.Datasets = append(append([]string{}, chain...), "out")
	if g.P(0.15) {
		// a hierarchy inside the dependency dataset: the first hop of the path stays in it (dep entities refer to
		// dep entities)
		chain = append([]string{"dep"}, chain...)
		hops++
	}
	// ids per dataset are disjoint: dep d*, linkN lN_*, main m*, second dependency x*
	ids := map[string][]string{}
	for _, ds := range chain {
		if _, done := ids[ds]; done {
			continue
		}
		stem := ds[:1]
		if ds != "dep" && ds != "main" {
			stem = "l" + ds[4:] + "_"
		}
		ids[ds] = poolNames(MkE, stem, g.Range(2, 3))
	}
	// join i connects chain[i] -> chain[i+1]; direction decides where the reference is stored
	var joins []any
	type edge struct {
		from, to string // dataset holding the referencing entity, dataset of the target
		pred     string
	}
	var edges []edge
	for i := 0; i < hops; i++ {
		inv := g.P(0.5)
		pred := fmt.Sprintf("%sj%d", MkS, i)
		joins = append(joins, map[string]any{"dataset": chain[i+1], "predicate": "PLACEHOLDER" + fmt.Sprint(i), "_pred": pred, "inverse": inv})
		if inv {
			edges = append(edges, edge{from: chain[i+1], to: chain[i], pred: pred}) // next-level entity references current-level entity
		} else {
			edges = append(edges, edge{from: chain[i], to: chain[i+1], pred: pred})
		}
	}
	deps := []any{map[string]any{"dataset": "dep", "joins": joins}}
	var writable []string
	for _, ds := range chain {
		if len(writable) == 0 || writable[len(writable)-1] != ds {
			writable = append(writable, ds)
		}
	}
	endpoints := []string{"dep", "main"} // datasets a client writes to while a run is under way
	if g.P(0.6) {
		// a second dependency, one hop from the main dataset
		sc.Datasets = append(sc.Datasets, "dep2")
		ids["dep2"] = poolNames(MkE, "x", g.Range(2, 3))
		inv := g.P(0.5)
		pred := MkS + "k0"
		d2 := map[string]any{"dataset": "dep2", "joins": []any{map[string]any{"dataset": "main", "predicate": "PLACEHOLDERk", "_pred": pred, "inverse": inv}}}
		if inv {
			edges = append(edges, edge{from: "main", to: "dep2", pred: pred})
		} else {
			edges = append(edges, edge{from: "dep2", to: "main", pred: pred})
		}
		if g.P(0.5) {
			deps = append(deps, d2)
		} else {
			deps = append([]any{d2}, deps...)
		}
		if g.P(0.25) {
			// a symmetric predicate: the same dependency declared in the other direction as well (dep2 entities point at
			// main entities and main entities at dep2 entities through one predicate)
			d3 := map[string]any{"dataset": "dep2", "joins": []any{map[string]any{"dataset": "main", "predicate": "PLACEHOLDERk", "_pred": pred, "inverse": !inv}}}
			if inv {
				edges = append(edges, edge{from: "dep2", to: "main", pred: pred})
			} else {
				edges = append(edges, edge{from: "main", to: "dep2", pred: pred})
			}
			deps = append(deps, d3)
		}
		writable = append(writable, "dep2")
		endpoints = append(endpoints, "dep2", "dep2")
	}
	batch := g.Range(1, 4)
	src := map[string]any{"Type": "MultiSource", "Name": "main", "Dependencies": deps}
	if g.P(0.3) {
		// the same join paths declared by the transform's track_queries function (walked from the main dataset)
		src = map[string]any{"Type": "MultiSource", "Name": "main", "_Dependencies": deps, "_track": true}
	}
	if g.P(0.25) {
		// only the newest version of each changed entity is read; what has to be emitted is the same
		src["LatestOnly"] = true
	}
	cfg := jobConfig("job1", src, map[string]any{"Type": "DatasetSink", "Name": "out"}, nil, "incremental", batch)
	sc.Ops = append(sc.Ops, Op{K: "addJob", M: cfg})
	// which predicates an entity of a dataset carries (as referencing side)
	predOf := map[string][]edge{}
	for _, e := range edges {
		predOf[e.from] = append(predOf[e.from], e)
	}
	version := 0
	mk := func(ds, id string) Ent {
		version++
		e := Ent{"id": id, "props": map[string]any{MkS + "v": float64(version)}, "refs": map[string]any{}}
		for _, ed := range predOf[ds] {
			if !g.P(0.8) {
				continue
			}
			n := g.Range(1, 2)
			var targets []any
			seen := map[string]bool{}
			for k := 0; k < n; k++ {
				t := g.Pick(ids[ed.to])
				if !seen[t] {
					seen[t] = true
					targets = append(targets, t)
				}
			}
			if len(targets) == 1 && g.P(0.5) {
				e["refs"].(map[string]any)[ed.pred] = targets[0]
			} else {
				e["refs"].(map[string]any)[ed.pred] = targets
			}
		}
		if g.P(0.12) {
			e["deleted"] = true
		}
		return e
	}
	// initial population, then the first (full) run
	for _, ds := range writable {
		var ents []Ent
		for _, id := range ids[ds] {
			if g.P(0.85) {
				ents = append(ents, mk(ds, id))
			}
		}
		if len(ents) > 0 {
			sc.Ops = append(sc.Ops, Op{K: "batch", DS: ds, Ents: ents})
		}
	}
	first := Op{K: "runFix", S: "job1"}
	if g.P(0.1) {
		// the job is scheduled (one pipeline and source object for all its runs). After a while the main dataset is
		// deleted and created again under its name, loaded again, and the operator has the job start over; changes
		// in the dependencies must go on reaching the main entities
		cfg["paused"] = false
		cfg["triggers"] = []any{map[string]any{"triggerType": "cron", "jobType": "incremental", "schedule": "@every 10m"}}
		first.N = 1
		sc.Ops = append(sc.Ops, first)
		write := func(ds string) {
			var ents []Ent
			for k := g.Range(1, 2); k > 0; k-- {
				ents = append(ents, mk(ds, g.Pick(ids[ds])))
			}
			sc.Ops = append(sc.Ops, Op{K: "batch", DS: ds, Ents: ents})
		}
		write("dep")
		sc.Ops = append(sc.Ops, Op{K: "runFix", S: "job1", N: 1})
		sc.Ops = append(sc.Ops, Op{K: "deleteDataset", DS: "main"}, Op{K: "createDataset", DS: "main"}, Op{K: "resetJob", S: "job1"})
		var ents []Ent
		for _, id := range ids["main"] {
			ents = append(ents, mk("main", id))
		}
		sc.Ops = append(sc.Ops, Op{K: "batch", DS: "main", Ents: ents}, Op{K: "runFix", S: "job1", N: 1})
		for rd := g.Range(1, 2); rd > 0; rd-- {
			write(g.Pick([]string{"dep", "dep", writable[len(writable)-1]}))
			sc.Ops = append(sc.Ops, Op{K: "runFix", S: "job1", N: 1})
		}
		sc.Note = "main dataset re-created under a scheduled job"
		return
	}
	inflight := func() {
		// a write to a dependency (or link, or the main dataset) is in flight - stored, not yet committed - while a
		// run of the job starts and ends
		ds := g.Pick(endpoints)
		var ents []Ent
		for k := g.Range(1, 2); k > 0; k-- {
			ents = append(ents, mk(ds, g.Pick(ids[ds])))
		}
		sc.Ops = append(sc.Ops, Op{K: "batch", DS: ds, Ents: ents, M: map[string]any{"runInside": "job1"}})
	}
	if g.P(0.2) {
		inflight() // ... the job's very first run
	} else if g.P(0.35) {
		// a client writes to a dependency (or the main dataset) while the very first run - a full sync - is between two pages
		ds := g.Pick(endpoints)
		first.M = map[string]any{"midWrite": map[string]any{"at": g.Range(1, 2), "ds": ds, "ents": []Ent{mk(ds, g.Pick(ids[ds]))}}}
	}
	sc.Ops = append(sc.Ops, first)
	for rd := g.Range(1, 4); rd > 0; rd-- {
		for w := g.Range(1, 3); w > 0; w-- {
			ds := g.Pick(writable)
			if g.P(0.5) {
				ds = g.Pick([]string{"dep", writable[len(writable)-1]})
			}
			var ents []Ent
			for k := g.Range(1, 2); k > 0; k-- {
				ents = append(ents, mk(ds, g.Pick(ids[ds])))
			}
			sc.Ops = append(sc.Ops, Op{K: "batch", DS: ds, Ents: ents})
		}
		if g.P(0.15) {
			// all earlier writes are run to the fixpoint first, then a write with a run inside it
			sc.Ops = append(sc.Ops, Op{K: "runFix", S: "job1"})
			inflight()
			sc.Ops = append(sc.Ops, Op{K: "runFix", S: "job1"})
			continue
		}
		spec := map[string]any{}
		if g.P(0.25) {
			spec["sinkFailAt"] = g.Range(1, 3)
		}
		if g.P(0.45) {
			// a client writes between two deliveries of the run; with two dependencies mostly to the one that is
			// processed later, after an earlier one has delivered something
			ds := g.Pick(endpoints)
			if len(deps) > 1 && g.P(0.6) {
				first := fmt.Sprint(deps[0].(map[string]any)["dataset"])
				ds = fmt.Sprint(deps[len(deps)-1].(map[string]any)["dataset"])
				sc.Ops = append(sc.Ops, Op{K: "batch", DS: first, Ents: []Ent{mk(first, g.Pick(ids[first]))}})
			}
			var ents []Ent
			for k := g.Range(1, 2); k > 0; k-- {
				ents = append(ents, mk(ds, g.Pick(ids[ds])))
			}
			spec["midWrite"] = map[string]any{"at": g.Range(1, 2), "ds": ds, "ents": ents}
		}
		sc.Ops = append(sc.Ops, Op{K: "runFix", S: "job1", M: spec})
	}
}

// genC09: HTTP full syncs (start / batch / end with matching, missing and foreign ids), plain
// writes, lease expiry by clock advance anywhere, and a fullsync job on the same dataset.
func genC09(g *G, sc *Scenario, tier string) {
	sc.Datasets = []string{"ds", "jsrc"}
	lease := g.PickInt([]int{5, 30, 120})
	sc.Knobs["leaseTimeoutNs"] = int64(lease) * 1_000_000_000
	sc.Knobs["web.batchSize"] = int64(g.PickInt([]int{1, 2, 10}))
	c := g.baseStoreCfg(tier)
	c.Datasets = []string{"ds"}
	c.Pool = poolNames(MkE, "e", g.Range(3, 6))
	c.PNested, c.PTxn, c.PRestart = 0, 0, 0
	c.NoPlainObjects = true
	c.MaxBatch = g.Range(1, 3)
	m := NewModel()
	m.Create("ds")
	m.Create("jsrc")
	ents := func() []Ent {
		e := g.batch(c, m, "ds")
		m.Batch("ds", e)
		return e
	}
	advance := func() Op {
		// around the lease: well before, just before, just after, long after
		ms := g.PickInt([]int{1, lease * 500, lease*1000 - 1, lease*1000 + 1, lease * 2000})
		return Op{K: "advance", N: ms}
	}
	withJob := g.P(0.4)
	jobByCron := false
	if withJob {
		var js []Ent
		for _, id := range c.Pool[:g.Range(1, len(c.Pool))] {
			js = append(js, g.freshEnt(c, id))
		}
		sc.Ops = append(sc.Ops, Op{K: "batch", DS: "jsrc", Ents: js})
		cfg := jobConfig("syncjob", map[string]any{"Type": "DatasetSource", "Name": "jsrc"}, map[string]any{"Type": "DatasetSink", "Name": "ds"}, nil, "fullsync", g.Range(1, 3))
		jobByCron = g.P(0.4)
		if jobByCron {
			// the job also runs through its cron trigger, where a capped log handler applies
			cfg["paused"] = false
			cfg["triggers"] = []any{map[string]any{"triggerType": "cron", "jobType": "fullsync", "schedule": "@every 3h",
				"onError": []any{map[string]any{"errorHandler": "log", "maxItems": float64(g.Range(1, 2))}}}}
		}
		sc.Ops = append(sc.Ops, Op{K: "addJob", M: cfg})
	}
	// some initial content
	for k := g.Range(0, 2); k > 0; k-- {
		sc.Ops = append(sc.Ops, Op{K: "post", DS: "ds", Ents: ents()})
	}
	if g.P(0.025) {
		// a dataset of more than a thousand entities, one of the early ones deleted long ago: a sync that lists only a
		// few of them removes all the others
		var big []Ent
		for k := 0; k < 1100; k++ {
			big = append(big, Ent{"id": fmt.Sprintf("%sbig%04d", MkE, k), "props": map[string]any{MkS + "n": float64(k)}, "refs": map[string]any{}})
		}
		m.Batch("ds", big)
		sc.Ops = append(sc.Ops, Op{K: "post", DS: "ds", Ents: big})
		gone := []Ent{{"id": fmt.Sprintf("%sbig%04d", MkE, g.Range(1, 40)), "deleted": true, "props": map[string]any{}, "refs": map[string]any{}}}
		m.Batch("ds", gone)
		sc.Ops = append(sc.Ops, Op{K: "post", DS: "ds", Ents: gone})
		sc.Note = "big dataset"
	}
	ids := []string{"syncA", "syncB"}
	client := func() []Op {
		// one client's view of a sync: start, 0-3 batches, end; with deviations
		var ops []Op
		id := g.Pick(ids)
		if g.P(0.08) {
			id = "" // a client that sends the start and end headers but no sync id
		}
		ops = append(ops, Op{K: "post", DS: "ds", Ents: ents(), M: map[string]any{"start": true, "id": id}})
		for k := g.Range(0, 3); k > 0; k-- {
			x := g.r.Float64()
			bid := id
			switch {
			case x < 0.15:
				bid = "foreign"
			case x < 0.25:
				bid = ""
			}
			ops = append(ops, Op{K: "post", DS: "ds", Ents: ents(), M: map[string]any{"id": bid}})
			if g.P(0.3) {
				ops = append(ops, advance())
			}
			if g.P(0.2) {
				// a transaction (POST /transactions, as a JavaScript transform issues it too) writes to the dataset while
				// the sync is open: written since its start, so live after its completion
				ops = append(ops, Op{K: "txnpost", DS: "ds", Ents: ents()})
			}
		}
		if g.P(0.8) {
			eid := id
			if g.P(0.1) {
				eid = "foreign"
			}
			endOp := Op{K: "post", DS: "ds", Ents: ents(), M: map[string]any{"id": eid, "end": true}}
			if g.P(0.35) {
				endOp.M["scanJumpAt"], endOp.M["scanJumpMs"] = g.Range(1, 3), lease*1000+g.PickInt([]int{1, 5000})
			} else if g.P(0.25) && sc.Note != "big dataset" {
				// (a dataset of more than a thousand entities is deleted in several commits, of which a failing one leaves
				// the earlier ones in place: not combined with this fault)
				// the completion of this end request fails when it stores its deletions: the sync is over all the
				// same; later the client tries its end request again, with and without the lease time gone by
				endOp.M["commitFail"] = true
				ops = append(ops, endOp)
				if g.P(0.6) {
					ops = append(ops, Op{K: "advance", N: g.PickInt([]int{1, lease*1000 + 1, lease * 2000})})
				}
				if g.P(0.6) {
					ops = append(ops, Op{K: "post", DS: "ds", Ents: ents()})
				}
				if g.P(0.6) {
					ops = append(ops, Op{K: "post", DS: "ds", Ents: ents(), M: map[string]any{"id": eid, "end": true}})
				}
				return ops
			}
			ops = append(ops, endOp)
		}
		return ops
	}
	for rd := g.Range(1, 3); rd > 0; rd-- {
		x := g.r.Float64()
		switch {
		case withJob && x < 0.4:
			op := Op{K: "jobsync", S: "syncjob"}
			if g.P(0.3) {
				// the job's sync is abandoned half way: its sink fails, or refuses entities until the handler gives up
				op.M = map[string]any{"sinkFailAt": g.Range(1, 3)}
				if jobByCron && g.P(0.7) {
					op.M = map[string]any{"cron": true, "rejectSuffix": fmt.Sprintf("e%d", g.Intn(3))}
				}
			} else if g.P(0.7) {
				// another client acts while the job's sync is running
				var inner []Op
				switch g.Intn(4) {
				case 0:
					inner = append(inner, Op{K: "post", DS: "ds", Ents: ents()}) // plain write
				case 1:
					inner = append(inner, Op{K: "post", DS: "ds", Ents: ents()}, advance())
				case 2:
					inner = append(inner, Op{K: "post", DS: "ds", Ents: ents(), M: map[string]any{"start": true, "id": "syncA"}})
					// ... and that client's sync is over again (completed, or its lease has run out) before the job gets to
					// its own end: the job has nothing left to complete
					if x := g.r.Float64(); x < 0.3 {
						inner = append(inner, Op{K: "post", DS: "ds", Ents: ents(), M: map[string]any{"id": "syncA", "end": true}})
					} else if x < 0.5 {
						inner = append(inner, Op{K: "advance", N: lease * 2000})
					}
				default:
					inner = append(inner, advance())
				}
				b, _ := json.Marshal(inner)
				var innerAny []any
				_ = json.Unmarshal(b, &innerAny)
				op.M = map[string]any{"during": []any{map[string]any{"at": g.Pick([]string{"pipeline.full.afterStart", "pipeline.full.afterBatch", "pipeline.full.beforeEnd"}), "hit": 1, "ops": innerAny}}}
			}
			sc.Ops = append(sc.Ops, op)
		case x < 0.55:
			// two clients interleaved
			a, b := client(), client()
			for len(a) > 0 || len(b) > 0 {
				if len(b) == 0 || (len(a) > 0 && g.P(0.5)) {
					sc.Ops = append(sc.Ops, a[0])
					a = a[1:]
				} else {
					sc.Ops = append(sc.Ops, b[0])
					b = b[1:]
				}
			}
		default:
			sc.Ops = append(sc.Ops, client()...)
		}
		if g.P(0.4) {
			sc.Ops = append(sc.Ops, Op{K: "post", DS: "ds", Ents: ents()})
		}
		if g.P(0.4) {
			sc.Ops = append(sc.Ops, advance())
		}
	}
}

var c16Resources = []string{"/datasets/a", "/datasets/a*", "/datasets/*", "/jobs*", "/*", "/datasets/b", "/query"}

func (g *G) aclSet() []any {
	n := g.Range(0, 3)
	var l []any
	for i := 0; i < n; i++ {
		l = append(l, map[string]any{"Resource": g.Pick(c16Resources), "Action": g.Pick([]string{"read", "write"}), "Deny": g.P(0.25)})
	}
	return l
}

// genC16: an admin registers clients and edits ACLs drawn from a small lattice; requests over
// every registered (method, route) with every token state; token expiry by clock advance; restarts.
// c16Cell returns the idx-th ACL set of the walk over all ordered sets of 0, 1 and 2 lattice entries
// (7 resources x read/write x allow/deny = 28 entries; 1 + 28 + 784 = 813 sets).
func c16Cell(idx int) []any {
	entry := func(k int) any {
		return map[string]any{"Resource": c16Resources[k/4], "Action": []string{"read", "write"}[(k/2)%2], "Deny": k%2 == 1}
	}
	e := len(c16Resources) * 4
	idx %= 1 + e + e*e
	switch {
	case idx == 0:
		return nil
	case idx <= e:
		return []any{entry(idx - 1)}
	default:
		idx -= 1 + e
		return []any{entry(idx / e), entry(idx % e)}
	}
}

func genC16(g *G, sc *Scenario, tier string, seed uint64) {
	sc.Ops = append(sc.Ops, Op{K: "setup"})
	// the first ACL set of client1 walks the lattice by scenario index; later edits are drawn at random (0-3 entries)
	sc.Ops = append(sc.Ops, Op{K: "acl", DS: "client1", A: c16Cell(int(seed % 10_000_000))})
	if g.P(0.5) {
		sc.Ops = append(sc.Ops, Op{K: "acl", DS: "client2", A: g.aclSet()})
	}
	hasDeny := false
	for _, e := range c16Cell(int(seed % 10_000_000)) {
		if m, _ := e.(map[string]any); m != nil && m["Deny"] == true {
			hasDeny = true
		}
	}
	if hasDeny {
		// an ACL with a deny entry: every dataset through a read and a write route, spelt plainly and with a
		// percent-escaped character
		for _, d := range []string{"a", "ab", "b"} {
			for _, rt := range []string{"GET /datasets/:dataset/entities", "POST /datasets/:dataset/entities", "GET /datasets/:dataset/changes"} {
				for esc := 0; esc < 2; esc++ {
					sc.Ops = append(sc.Ops, Op{K: "req", S: "client", DS: d, Limit: esc, M: map[string]any{"route": rt}})
				}
			}
		}
	}
	kinds := []string{"client", "client", "client", "client", "client", "none", "admin", "admin", "noroles", "noroles", "expired", "wrongkey", "wrongiss", "wrongaud", "hs256", "algnone"}
	n := g.Range(15, 45)
	for i := 0; i < n; i++ {
		x := g.r.Float64()
		switch {
		case x < 0.06:
			sc.Ops = append(sc.Ops, Op{K: "acl", DS: g.Pick([]string{"client1", "client1", "client2"}), A: g.aclSet()})
		case x < 0.09:
			sc.Ops = append(sc.Ops, Op{K: "acl", DS: g.Pick([]string{"client1", "client2"}), S: "delete"})
		case x < 0.13:
			sc.Ops = append(sc.Ops, Op{K: "restart"})
		case x < 0.155:
			// a registration is deleted (its ACL goes with it); now and then the hub restarts right after, and the
			// client is registered again later without any grant
			c := g.Pick([]string{"client1", "client1", "client2"})
			sc.Ops = append(sc.Ops, Op{K: "unregister", DS: c})
			if g.P(0.6) {
				sc.Ops = append(sc.Ops, Op{K: "restart"})
			}
			if g.P(0.7) {
				sc.Ops = append(sc.Ops, Op{K: "register", DS: c})
			}
		case x < 0.18:
			sc.Ops = append(sc.Ops, Op{K: "advance", N: g.PickInt([]int{60, 600, 1000})})
		case x < 0.20:
			sc.Ops = append(sc.Ops, Op{K: "crossAssertion", N: g.Intn(2)})
		case x < 0.235:
			// an entry is turned into a deny (or back) by re-posting the same list; often the hub restarts before any
			// other ACL is written
			sc.Ops = append(sc.Ops, Op{K: "aclflip", DS: g.Pick([]string{"client1", "client1", "client2"}), N: g.Intn(3)})
			if g.P(0.6) {
				sc.Ops = append(sc.Ops, Op{K: "restart"})
			}
		case x < 0.27:
			sc.Ops = append(sc.Ops, Op{K: "list"})
		default:
			sc.Ops = append(sc.Ops, Op{K: "req", N: g.Intn(1000), S: g.Pick(kinds), DS: g.Pick([]string{"a", "a", "ab", "b"})})
			if g.P(0.3) {
				sc.Ops[len(sc.Ops)-1].Limit = 1 // percent-escaped spelling of the dataset name
			}
		}
	}
	sc.Ops = append(sc.Ops, Op{K: "restart"})
}

// genC14: hub-level histories of data, dataset-, job- and security-management operations with a
// restart at a random position (quick) or, in the thorough tier, at the position given by the seed
// index so that every position of a history is covered by consecutive seeds.
func genC14(g *G, sc *Scenario, tier string, seed uint64) {
	hg := g
	if tier == "thorough" {
		// same history for 16 consecutive seeds, restart position = seed mod 16
		hg = NewG((seed/16)*7919 + 13)
	}
	c := hg.baseStoreCfg(tier)
	c.Datasets = []string{"dsA", "dsB"}
	c.PNested, c.PRestart, c.PTxn = 0, 0, 0.15
	c.NoPlainObjects = true
	sc.Datasets = c.Datasets
	m := NewModel()
	m.Create("dsA")
	m.Create("dsB")
	m.Create("out")
	sc.Datasets = append(sc.Datasets, "out")
	var ops []Op
	n := hg.Range(6, 15)
	jobN := 0
	for i := 0; i < n; i++ {
		x := hg.r.Float64()
		switch {
		case x < 0.30:
			ds := hg.Pick(c.Datasets)
			ents := hg.batch(c, m, ds)
			m.Batch(ds, ents)
			ops = append(ops, Op{K: "batch", DS: ds, Ents: ents})
		case x < 0.36:
			op := Op{K: hg.Pick([]string{"createDataset", "deleteDataset"}), DS: hg.Pick([]string{"dsX", "dsY"})}
			if op.K == "createDataset" {
				// dataset settings given at creation are part of the state a restart has to bring back
				switch hg.Intn(6) {
				case 0:
					op.M = map[string]any{"proxy": "http://remote.example.org/datasets/x"}
				case 1:
					op.M = map[string]any{"virtual": "ZnVuY3Rpb24gYnVpbGRfZW50aXRpZXMoKSB7fQ=="}
				case 2:
					op.M = map[string]any{"publicNamespaces": []any{ExE, ExS}}
				case 3:
					op.M = map[string]any{"proxy": "http://remote.example.org/datasets/y", "publicNamespaces": []any{ExE}}
				}
			}
			ops = append(ops, op)
		case x < 0.38:
			ops = append(ops, Op{K: "renameDataset", DS: "dsX", DS2: "dsY"})
		case x < 0.42:
			// public namespaces grown, replaced, shrunk or emptied
			ops = append(ops, Op{K: "setPublicNamespaces", DS: hg.Pick([]string{"dsX", "dsY", "dsA"}), A: [][]any{{ExE, ExS}, {ExE}, {ExS}, {}}[hg.Intn(4)]})
		case x < 0.52:
			jobN++
			id := fmt.Sprintf("job%d", jobN%3)
			trig := map[string]any{"triggerType": "cron", "jobType": hg.Pick([]string{"incremental", "fullsync"}), "schedule": "@every 8760h"}
			if hg.P(0.6) {
				var onErr []any
				if hg.P(0.7) {
					onErr = append(onErr, map[string]any{"errorHandler": "reRun", "maxRetries": hg.Range(0, 3), "retryDelay": hg.PickInt([]int{0, 5, 30, 120})})
				}
				if hg.P(0.5) {
					onErr = append(onErr, map[string]any{"errorHandler": "log", "maxItems": hg.Range(0, 5)})
				}
				trig["onError"] = onErr
			}
			// titles have to be unique among the jobs; re-posting a job under another title frees its old one
			title := hg.Pick([]string{id, id, "title-a", "title-b"})
			src := map[string]any{"Type": "DatasetSource", "Name": hg.Pick(c.Datasets)}
			if hg.P(0.3) {
				// a union of datasets, its members written the short way
				src = map[string]any{"Type": "UnionDatasetSource", "DatasetSources": []any{map[string]any{"Name": "dsA"}, map[string]any{"Name": "dsB"}}}
			}
			cfg := map[string]any{"id": id, "title": title, "source": src, "sink": map[string]any{"Type": "DatasetSink", "Name": "out"},
				"paused": hg.P(0.5), "batchSize": hg.Range(1, 5), "triggers": []any{trig}}
			ops = append(ops, Op{K: "addJob", M: cfg})
		case x < 0.58:
			ops = append(ops, Op{K: hg.Pick([]string{"pauseJob", "resumeJob"}), S: fmt.Sprintf("job%d", hg.Intn(3))})
		case x < 0.61:
			ops = append(ops, Op{K: "deleteJob", S: fmt.Sprintf("job%d", hg.Intn(3))})
		case x < 0.70:
			ops = append(ops, Op{K: "run", S: fmt.Sprintf("job%d", hg.Intn(3)), DS: hg.Pick([]string{"incremental", "fullsync"})})
		case x < 0.78:
			ops = append(ops, Op{K: "registerClient", S: hg.Pick([]string{"client1", "client2"}), N: hg.Intn(2)})
		case x < 0.81:
			ops = append(ops, Op{K: "deleteClient", S: hg.Pick([]string{"client1", "client2"})})
		case x < 0.90:
			ops = append(ops, Op{K: "setAcl", S: hg.Pick([]string{"client1", "client2"}), A: hg.aclSet()})
		case x < 0.93:
			ops = append(ops, Op{K: "deleteAcl", S: hg.Pick([]string{"client1", "client2"})})
		case x < 0.98:
			ops = append(ops, Op{K: "addProvider", S: hg.Pick([]string{"prov1", "prov2"})})
		default:
			ops = append(ops, Op{K: "deleteProvider", S: hg.Pick([]string{"prov1", "prov2"})})
		}
	}
	if hg.P(0.15) {
		// a job is posted, posted again under another title, and its first title is then given to another job
		mk := func(id, title string) Op {
			return Op{K: "addJob", M: map[string]any{"id": id, "title": title, "source": map[string]any{"Type": "DatasetSource", "Name": "dsA"}, "sink": map[string]any{"Type": "DatasetSink", "Name": "out"},
				"paused": true, "batchSize": 2, "triggers": []any{map[string]any{"triggerType": "cron", "jobType": "incremental", "schedule": "@every 8760h"}}}}
		}
		for _, op := range []Op{mk("jobR", "title-r1"), mk("jobR", "title-r2"), mk("jobS", "title-r1")} {
			at := len(ops)
			if hg.P(0.5) {
				at = hg.Range(len(ops)/2, len(ops))
			}
			ops = append(ops[:at:at], append([]Op{op}, ops[at:]...)...)
		}
	}
	if hg.P(0.12) {
		// a job that has run is deleted and later defined again under the same id: it goes on from where it was
		mk := func() Op {
			return Op{K: "addJob", M: map[string]any{"id": "jobT", "title": "title-t", "source": map[string]any{"Type": "DatasetSource", "Name": "dsA"}, "sink": map[string]any{"Type": "DatasetSink", "Name": "out"},
				"paused": true, "batchSize": 2, "triggers": []any{map[string]any{"triggerType": "cron", "jobType": "incremental", "schedule": "@every 8760h"}}}}
		}
		story := []Op{mk(), {K: "batch", DS: "dsA", Ents: []Ent{{"id": MkE + "t1", "props": map[string]any{MkS + "a0": "x"}, "refs": map[string]any{}}}}, {K: "run", S: "jobT", DS: "incremental"},
			{K: "deleteJob", S: "jobT"}, mk(), {K: "batch", DS: "dsA", Ents: []Ent{{"id": MkE + "t2", "props": map[string]any{MkS + "a0": "y"}, "refs": map[string]any{}}}}, {K: "run", S: "jobT", DS: "incremental"}}
		at := hg.Intn(len(ops) + 1)
		for _, op := range story {
			ops = append(ops[:at:at], append([]Op{op}, ops[at:]...)...)
			at += 1 + hg.Intn(2)
			if at > len(ops) {
				at = len(ops)
			}
		}
	}
	pos := g.Intn(len(ops) + 1)
	if tier == "thorough" {
		pos = int(seed%16) % (len(ops) + 1)
	}
	sc.Ops = append(append(append([]Op{}, ops[:pos]...), Op{K: "restart"}), ops[pos:]...)
	sc.Ops = append(sc.Ops, Op{K: "restart"})
}

// genC15: entity collections of every JSON shape are POSTed to hub A, pulled by hub B and pushed
// to hub B over the simulated transport (arbitrary chunking; truncation, reader errors, replaced
// tokens as faults); malformed payloads are POSTed to hub B.
func genC15(g *G, sc *Scenario, tier string) {
	c := g.baseStoreCfg(tier)
	c.Datasets = []string{"src"}
	c.NoPlainObjects = true
	c.PNested = 0.25
	c.PTxn, c.PRestart = 0, 0
	c.MaxBatch = g.Range(1, 5)
	sc.Knobs["jobBatch"] = int64(g.Range(1, 4))
	sc.Knobs["web.batchSize"] = int64(g.PickInt([]int{1, 2, 10}))
	// a few identifiers whose serialised forms collide as strings with the declared prefix names
	c.Pool = append(c.Pool, MkS+"K0", MkE+"t1carl", MkE+"t", MkE+"httpStatus", MkE+"https-only")
	// local names that contain colons themselves (composite keys): the prefix ends at the first colon
	c.Pool = append(c.Pool, MkS+"ord:1", MkS+"ord:2", MkS+"line:1:a")
	c.PEmptyRef = 0.06
	c.PropKeys = append(c.PropKeys, MkS+"k:1")
	if g.P(0.5) {
		// the two hubs have met different namespaces before, so the same prefix number means different things to them
		sc.Knobs["skewNS"] = 1
	}
	// property and reference keys in both namespaces with the same local names: the serialised key "s:a0" of one
	// payload and of the next (whose context swaps the prefixes) are different properties
	c.PropKeys = append(c.PropKeys, MkE+"a0", MkS+"a0")
	c.Preds = append(c.Preds, MkE+"p0", MkS+"p0")
	m := NewModel()
	m.Create("src")
	mm := NewModel()
	mm.Create("mal")
	tm := NewModel()
	for _, d := range []string{"tx1", "tx2", "tx3"} {
		tm.Create(d)
	}
	replaces := [][2]string{
		{`"deleted":true`, `"deleted":"true"`}, {`"refs":{`, `"refs":{"zz:bad":5,`}, {`"id":"ns`, `"id":7,"x":"ns`}, {`"props":{`, `"props":[`},
		{`"recorded":`, `"recorded":"x`}, {`"namespaces":{`, `"namespaces":[{`}, {`{"id":"@continuation"`, `{"id":12`},
	}
	publicNS, usedT := g.P(0.3), false
	if publicNS {
		sc.Knobs["publicNS"] = 1
	}
	if g.P(0.04) {
		// a dataset of a few hundred entities (internal ids beyond one byte), read back in pages of 1, 2 and 3
		var ents []Ent
		for k := 0; k < 300; k++ {
			ents = append(ents, Ent{"id": fmt.Sprintf("%sbig%03d", MkE, k), "props": map[string]any{MkS + "n": float64(k)}, "refs": map[string]any{}})
		}
		m.Batch("src", ents)
		sc.Ops = append(sc.Ops, Op{K: "payload", Ents: ents, N: g.Intn(6)})
		for _, l := range []int{1, 2, 3} {
			sc.Ops = append(sc.Ops, Op{K: "readback", S: "entities", Limit: l})
		}
		sc.Ops = append(sc.Ops, Op{K: "readback", S: "changes", Limit: 7}, Op{K: "readback", S: "latest", Limit: 64})
	}
	for rd := g.Range(1, 3); rd > 0; rd-- {
		for k := g.Range(1, 3); k > 0; k-- {
			ents := g.batch(c, m, "src")
			m.Batch("src", ents)
			sc.Ops = append(sc.Ops, Op{K: "payload", Ents: ents, N: g.Intn(6)})
		}
		for _, kind := range []string{"pull", "push"} {
			if !g.P(0.8) {
				continue
			}
			op := Op{K: kind}
			var faults []any
			if g.P(0.6) {
				faults = append(faults, map[string]any{"kind": "chunk", "chunk": g.PickInt([]int{1, 2, 3, 7, 64})})
			}
			if kind == "pull" && g.P(0.45) {
				switch g.Intn(3) {
				case 0:
					faults = append(faults, map[string]any{"kind": "truncate", "at": g.Range(1, 600), "nth": 1})
				case 1:
					faults = append(faults, map[string]any{"kind": "readerr", "at": g.Range(0, 600), "nth": 1})
				default:
					rp := replaces[g.Intn(len(replaces))]
					faults = append(faults, map[string]any{"kind": "replace", "from": rp[0], "to": rp[1], "nth": 1})
				}
			}
			if kind == "push" && g.P(0.2) {
				faults = append(faults, map[string]any{"kind": g.Pick([]string{"drop-response", "dup"}), "nth": 1})
			}
			if len(faults) > 0 {
				op.M = map[string]any{"faults": faults}
			}
			sc.Ops = append(sc.Ops, op)
			if len(faults) > 0 {
				sc.Ops = append(sc.Ops, Op{K: kind}) // a clean transfer afterwards catches up
			}
		}
		if g.P(0.5) {
			sc.Ops = append(sc.Ops, Op{K: "readback", S: g.Pick([]string{"entities", "changes", "latest"}), Limit: g.PickInt([]int{0, 1, 2, 3, 5})})
		}
		if g.P(0.4) {
			// the HTTP query route over several start entities at once, paged through its continuation tokens
			var starts []any
			for _, pi := range g.r.Perm(len(c.Pool))[:min(len(c.Pool), g.Range(1, 3))] {
				if strings.HasPrefix(c.Pool[pi], MkE) {
					starts = append(starts, c.Pool[pi])
				}
			}
			if len(starts) > 0 {
				sc.Ops = append(sc.Ops, Op{K: "readback", S: "query", A: starts, Limit: g.PickInt([]int{0, 1, 1, 2, 4})})
			}
		}
		if publicNS && !usedT && g.P(0.7) {
			// the dataset lists a public namespace nobody has used yet; its first use is an update of an entity that
			// exists already (no new entity in the batch), read back through a clean pull
			d := m.DS["src"]
			for _, id := range sortedKeys(d.Latest) {
				cur := d.LatestOf(id)
				if cur == nil || cur.Deleted {
					continue
				}
				e := specFromCanon(cur)
				e["props"].(map[string]any)[ExT+"k"] = "first-use"
				m.Batch("src", []Ent{e})
				sc.Ops = append(sc.Ops, Op{K: "payload", Ents: []Ent{e}, N: g.Intn(6)}, Op{K: "pull"})
				usedT = true
				break
			}
		}
		if g.P(0.5) {
			// a transaction over 1-3 datasets, now and then with a defect
			var parts []Part
			for _, d := range []string{"tx1", "tx2", "tx3"} {
				if g.P(0.65) {
					c.Datasets = []string{d}
					parts = append(parts, Part{DS: d, Ents: g.batch(c, tm, d)})
				}
			}
			c.Datasets = []string{"src"}
			if len(parts) > 0 {
				op := Op{K: "txn", Parts: parts, N: g.Intn(6)}
				if g.P(0.35) {
					op.M = map[string]any{"kind": g.Pick([]string{"truncate", "truncate", "dataset-object", "dataset-string", "entity-id-number", "namespaces-array", "unknown-dataset"}), "at": g.Range(1, 1500)}
				} else {
					for _, p := range parts {
						tm.Batch(p.DS, p.Ents)
					}
				}
				sc.Ops = append(sc.Ops, op)
			}
		}
		for k := g.Range(0, 2); k > 0; k-- {
			c.Datasets = []string{"mal"}
			ents := g.batch(c, mm, "mal")
			c.Datasets = []string{"src"}
			spec := map[string]any{}
			if g.P(0.4) {
				spec["kind"], spec["at"] = "truncate", g.Range(1, 2000)
			} else {
				spec["kind"], spec["idx"] = g.Pick(c15TokenKinds), g.Intn(8)
				if g.P(0.25) {
					spec["afterCont"] = true
				}
			}
			sc.Ops = append(sc.Ops, Op{K: "malformed", Ents: ents, N: g.Intn(6), M: spec})
		}
	}
}

// genC11: jobs assembled from every building block the scheduler knows, with cron and on-change
// triggers, error handlers and both run types; client tasks start, kill, pause, resume, re-configure and
// delete them, write to monitored datasets and poll the status while simulated time lets cron fire.
func genC11(g *G, sc *Scenario, tier string, seed uint64) {
	// layered datasets: clients write layer 0, a job of level L reads and monitors layers <= L and writes
	// layer L+1, so that no chain of on-change triggers feeds itself
	layers := [][]string{{"dA", "dB"}, {"dC"}, {"dD"}}
	sc.Datasets = []string{"dA", "dB", "dC", "dD"}
	level := 0
	data := layers[0]
	setLevel := func(l int) {
		level = l
		data = nil
		for i := 0; i <= l; i++ {
			data = append(data, layers[i]...)
		}
	}
	setLevel(0)
	sc.Knobs["poolIncr"] = int64(g.Range(1, 3))
	sc.Knobs["poolFull"] = int64(g.Range(1, 2))
	sc.Knobs["preemptRaffle"] = int64(g.PickInt([]int{0, 1, 1}))
	js := func(code string) string { return base64.StdEncoding.EncodeToString([]byte(code)) }
	// the first job of a scenario walks the cross product of building blocks by seed index (8 sources x 6
	// transforms x 5 sinks x 2 trigger types x 2 run types x 6 handler sets = 5760 cells); everything else
	// is drawn at random
	idx := int(seed % 10_000_000)
	cell := map[string]int{"source": idx % 8, "transform": (idx / 8) % 6, "sink": (idx / 48) % 5, "trigger": (idx / 240) % 2, "type": (idx / 480) % 2, "handlers": (idx / 960) % 6}
	walk := false
	pick := func(dim string, n int, table []int) int {
		if walk {
			return table[cell[dim]]
		}
		return g.Intn(n)
	}
	source := func() map[string]any {
		switch pick("source", 10, []int{0, 3, 4, 5, 6, 8, 8, 0}) {
		case 0, 1, 2:
			m := map[string]any{"Type": "DatasetSource", "Name": g.Pick(data)}
			if g.P(0.06) {
				m["Name"] = "nosuchdataset" // accepted: the dataset is looked up when the job runs
			}
			if g.P(0.4) || (walk && cell["source"] == 7) {
				m["LatestOnly"] = g.P(0.5) || walk
			}
			return m
		case 3:
			l := []any{}
			n := g.Range(1, 3)
			if g.P(0.08) {
				n = 0 // a union of nothing (accepted or refused: never fatal)
			}
			for i := n; i > 0; i-- {
				l = append(l, map[string]any{"Name": g.Pick(data)})
			}
			return map[string]any{"Type": "UnionDatasetSource", "DatasetSources": l}
		case 4:
			other := g.Pick(data)
			return map[string]any{"Type": "MultiSource", "Name": g.Pick(data), "Dependencies": []any{map[string]any{"dataset": other,
				"joins": []any{map[string]any{"dataset": other, "predicate": "ns4:j0", "inverse": g.P(0.5)}}}}}
		case 5:
			return map[string]any{"Type": "SampleSource", "NumberOfEntities": float64(g.Range(0, 7))}
		case 6, 7:
			return map[string]any{"Type": "SlowSource", "Sleep": g.Pick([]string{"1ms", "700ms", "2500ms", "9s"}), "BatchSize": float64(g.Range(0, 4))}
		default:
			return map[string]any{"Type": "HttpDatasetSource", "Url": "http://" + g.Pick([]string{"ok.sim", "ok.sim", "tok.sim", "fail.sim", "err.sim", "slow.sim", "stall.sim"}) + "/datasets/x/changes"}
		}
	}
	sink := func() map[string]any {
		switch pick("sink", 8, []int{0, 4, 5, 6, 6}) {
		case 0, 1, 2, 3:
			if g.P(0.06) {
				return map[string]any{"Type": "DatasetSink", "Name": "nosuchdataset"}
			}
			return map[string]any{"Type": "DatasetSink", "Name": g.Pick(layers[level+1])}
		case 4:
			return map[string]any{"Type": "DevNullSink"}
		case 5:
			return map[string]any{"Type": "ConsoleSink", "Prefix": "c11 ", "Detailed": g.P(0.3)}
		default:
			return map[string]any{"Type": "HttpDatasetSink", "Url": "http://" + g.Pick([]string{"ok.sim", "fail.sim", "err.sim"}) + "/datasets/y/entities"}
		}
	}
	transform := func() map[string]any {
		switch pick("transform", 9, []int{0, 4, 6, 7, 8, 4}) {
		case 0, 1, 2, 3:
			return nil
		case 4, 5:
			m := map[string]any{"Type": "JavascriptTransform", "Code": js("function transform_entities(entities) { return entities; }")}
			if g.P(0.3) {
				// a transform that passes whatever the entities carry (scalars, lists, complete and incomplete nested
				// entities) through the helper functions the hub implements in Go
				m["Code"] = js("function transform_entities(entities) { var s = GetNamespacePrefix(\"" + ExS + "\"); var out = []; for (var i = 0; i < entities.length; i++) { var e = entities[i]; var sub = GetProperty(e, s, \"sub\"); var se = AsEntity(sub); var r = NewEntity(); SetId(r, GetId(e)); SetProperty(r, s, \"v\", GetProperty(e, s, \"v\", 0)); if (se != null) { SetProperty(r, s, \"subid\", GetId(se)); SetProperty(r, s, \"sub\", se); } SetProperty(r, s, \"str\", ToString(sub)); FindById(GetId(e)); Query([GetId(e)], \"*\", false, []); out.push(r); } return out; }")
			}
			if g.P(0.6) {
				m["Parallelism"] = float64(g.PickInt([]int{0, 1, 2, 3, 4, 5, 8, -1}))
			}
			return m
		case 6:
			return map[string]any{"Type": "JavascriptTransform", "Code": js("function transform_entities(entities) { throw new Error('scripted transform failure'); }"), "Parallelism": float64(g.Range(1, 3))}
		case 7:
			if g.P(0.4) {
				// a transform that drops the whole batch: the sink is handed an empty list
				return map[string]any{"Type": "JavascriptTransform", "Code": js("function transform_entities(entities) { return []; }")}
			}
			return map[string]any{"Type": "JavascriptTransform", "Code": js("function transform_entities(entities) { var out = []; for (var i = 0; i < entities.length; i++) { if (i % 2 == 0) { out.push(entities[i]); } } return out; }")}
		default:
			return map[string]any{"Type": "HttpTransform", "Url": "http://" + g.Pick([]string{"ok.sim", "fail.sim", "err.sim"}) + "/transform"}
		}
	}
	handlers := func() []any {
		var l []any
		if walk {
			// none, log, reRun, log+reRun, reQueue, log+reRun+reQueue
			set := [][]string{{}, {"log"}, {"reRun"}, {"log", "reRun"}, {"reQueue"}, {"log", "reRun", "reQueue"}}[cell["handlers"]]
			for _, h := range set {
				m := map[string]any{"errorHandler": h}
				switch h {
				case "log", "reQueue":
					if g.P(0.5) {
						m["maxItems"] = float64(g.Range(0, 3))
					}
				case "reRun":
					m["maxRetries"], m["retryDelay"] = float64(g.Range(0, 3)), float64(g.PickInt([]int{1, 2, 7, 20}))
				}
				l = append(l, m)
			}
			return l
		}
		if g.P(0.45) {
			m := map[string]any{"errorHandler": g.Pick([]string{"log", "log", "Log"})}
			if g.P(0.5) {
				m["maxItems"] = float64(g.Range(0, 3))
			}
			l = append(l, m)
		}
		if g.P(0.4) {
			m := map[string]any{"errorHandler": g.Pick([]string{"reRun", "rerun"})}
			if g.P(0.7) {
				m["maxRetries"] = float64(g.Range(0, 3))
			}
			if g.P(0.7) {
				m["retryDelay"] = float64(g.PickInt([]int{1, 2, 7, 20}))
			}
			l = append(l, m)
		}
		if g.P(0.1) {
			l = append(l, map[string]any{"errorHandler": "reQueue", "maxItems": float64(g.Range(0, 2))})
		}
		return l
	}
	trigger := func() map[string]any {
		t := map[string]any{"jobType": g.Pick([]string{"incremental", "incremental", "fullsync"})}
		cron := g.P(0.6)
		if walk {
			t["jobType"] = []string{"incremental", "fullsync"}[cell["type"]]
			cron = cell["trigger"] == 0
		}
		if cron {
			t["triggerType"] = "cron"
			t["schedule"] = fmt.Sprintf("@every %ds", g.PickInt([]int{1, 2, 3, 5, 7, 11}))
		} else {
			t["triggerType"] = "onchange"
			t["monitoredDataset"] = g.Pick(data)
		}
		if hs := handlers(); len(hs) > 0 {
			t["onError"] = hs
		}
		return t
	}
	njobs := g.Range(1, 4)
	var ids []string
	mkJob := func(id string) map[string]any {
		setLevel(g.Intn(2))
		defer setLevel(0)
		cfg := map[string]any{"id": id, "title": "title-" + id, "source": source(), "sink": sink(), "paused": g.P(0.15), "batchSize": float64(g.PickInt([]int{0, 1, 2, 5}))}
		if t := transform(); t != nil {
			cfg["transform"] = t
		}
		var ts []any
		for i := g.Range(1, 2); i > 0; i-- {
			ts = append(ts, trigger())
		}
		cfg["triggers"] = ts
		return cfg
	}
	ent := func() Ent {
		e := Ent{"id": fmt.Sprintf("%se%d", MkE, g.Intn(10)), "props": map[string]any{MkS + "v": float64(g.Intn(1000))}, "refs": map[string]any{}}
		if g.P(0.3) {
			// what a nested value can look like in data that came in over HTTP or from another job
			e["props"].(map[string]any)[MkS+"sub"] = []any{
				map[string]any{"id": MkE + "n1", "props": map[string]any{MkS + "street": "a"}, "refs": map[string]any{}},
				map[string]any{"id": MkE + "n2"},
				map[string]any{"id": float64(5), "k": "v"},
				map[string]any{"id": MkE + "n3", "props": map[string]any{}},
				"plain", float64(7), []any{"a", float64(1)},
			}[g.Intn(7)]
		}
		return e
	}
	for _, d := range data {
		if g.P(0.8) {
			var ents []Ent
			for i := g.Range(1, 9); i > 0; i-- {
				ents = append(ents, ent())
			}
			sc.Ops = append(sc.Ops, Op{K: "batch", DS: d, Ents: ents})
		}
	}
	for i := 0; i < njobs; i++ {
		id := fmt.Sprintf("job%d", i+1)
		ids = append(ids, id)
		walk = i == 0
		cfg := mkJob(id)
		if walk {
			cfg["paused"] = false
			cfg["triggers"] = cfg["triggers"].([]any)[:1]
		}
		walk = false
		sc.Ops = append(sc.Ops, Op{K: "addJob", M: cfg})
	}
	focused := g.P(0.2)
	if focused {
		// a copy job with per-entity error handling whose sink refuses one entity for good, triggered often
		// enough that a second trigger of the same job object arrives while a run is under way
		t := map[string]any{"jobType": g.Pick([]string{"incremental", "fullsync"})}
		if g.P(0.6) {
			t["triggerType"], t["monitoredDataset"] = "onchange", "dA"
		} else {
			t["triggerType"], t["schedule"] = "cron", "@every 1s"
		}
		hs := []any{map[string]any{"errorHandler": "log"}}
		if g.P(0.4) {
			hs = append(hs, map[string]any{"errorHandler": "reRun", "maxRetries": float64(g.Range(1, 2)), "retryDelay": float64(g.PickInt([]int{1, 2}))})
		}
		t["onError"] = hs
		src := map[string]any{"Type": "DatasetSource", "Name": "dA"}
		if g.P(0.3) {
			src = map[string]any{"Type": "SlowSource", "Sleep": g.Pick([]string{"700ms", "2500ms"}), "BatchSize": float64(g.Range(3, 5))}
		}
		cfg := map[string]any{"id": "job1", "title": "title-job1", "source": src, "sink": map[string]any{"Type": "DatasetSink", "Name": "dC"},
			"paused": false, "batchSize": float64(g.Range(1, 2)), "triggers": []any{t}}
		sc.Ops[len(sc.Ops)-njobs] = Op{K: "addJob", M: cfg}
		var ents []Ent
		for i := 0; i < 6; i++ {
			ents = append(ents, Ent{"id": fmt.Sprintf("%se%d", MkE, i), "props": map[string]any{MkS + "v": float64(g.Intn(1000))}, "refs": map[string]any{}})
		}
		sc.Ops = append([]Op{{K: "batch", DS: "dA", Ents: ents}}, sc.Ops...)
	}
	if focused || g.P(0.25) {
		sc.Faults = append(sc.Faults, Fault{At: "sink.dataset", Kind: "reject", Arg: int64(g.Range(0, 4))})
	}
	// planned faults by arrival count
	for i := g.Intn(4); i > 0; i-- {
		sc.Faults = append(sc.Faults, Fault{At: g.Pick([]string{"sink.dataset", "sink.dataset", "transform.batch", "StoreEntities.dataCommit"}), Hit: g.Range(1, 12), Kind: "error"})
	}
	ntasks := g.Range(2, 4)
	dsMgmt := !focused && g.P(0.3)
	for t := 0; t < ntasks; t++ {
		var ops []Op
		for n := g.Range(3, 9); n > 0; n-- {
			id := g.Pick(ids)
			switch g.Intn(12) {
			case 0, 1:
				ops = append(ops, Op{K: "runJob", S: id, DS: g.Pick([]string{"incremental", "fullsync"})})
			case 2:
				ops = append(ops, Op{K: "killJob", S: id})
			case 3:
				ops = append(ops, Op{K: g.Pick([]string{"pause", "unpause", "unpause"}), S: id})
			case 4, 5:
				ds := g.Pick(data)
				if focused {
					ds = "dA"
				}
				ops = append(ops, Op{K: "batch", DS: ds, Ents: []Ent{ent()}})
			case 6, 7:
				ops = append(ops, Op{K: "status", S: id})
			case 8:
				if g.P(0.5) {
					ops = append(ops, Op{K: "addJob", M: mkJob(id)})
				} else {
					ops = append(ops, Op{K: "deleteJob", S: id})
				}
			default:
				if dsMgmt && g.P(0.35) {
					// a client deletes (and later re-creates) a dataset that jobs read from or write to, whatever they are doing
					ops = append(ops, Op{K: g.Pick([]string{"deleteDataset", "deleteDataset", "createDataset"}), DS: g.Pick(data)})
					break
				}
				ops = append(ops, Op{K: "sleep", N: g.PickInt([]int{1, 300, 1100, 2300, 5200, 12500})})
			}
		}
		sc.Tasks = append(sc.Tasks, ops)
	}
	if g.P(0.08) {
		// a job over a union of datasets runs incrementally, is posted again with fewer (or more) datasets in its union
		// and runs again without a reset: the stored token no longer fits, the run has to end with a recorded failure
		union := func(names ...string) map[string]any {
			var l []any
			for _, n := range names {
				l = append(l, map[string]any{"Name": n})
			}
			return map[string]any{"id": "jobU", "title": "title-jobU", "source": map[string]any{"Type": "UnionDatasetSource", "DatasetSources": l}, "sink": map[string]any{"Type": "DatasetSink", "Name": "dD"},
				"paused": true, "batchSize": float64(g.Range(1, 3)), "triggers": []any{map[string]any{"triggerType": "cron", "jobType": "incremental", "schedule": "@every 8760h"}}}
		}
		shapes := [][]string{{"dA", "dB", "dC"}, {"dA", "dB"}, {"dA"}, {"dB", "dA", "dC", "dA"}}
		a := g.Intn(len(shapes))
		b := (a + 1 + g.Intn(len(shapes)-1)) % len(shapes)
		sc.Ops = append(sc.Ops, Op{K: "addJob", M: union(shapes[a]...)})
		sc.Tasks = append(sc.Tasks, []Op{{K: "runJob", S: "jobU", DS: "incremental"}, {K: "sleep", N: 2300}, {K: "addJob", M: union(shapes[b]...)}, {K: "runJob", S: "jobU", DS: "incremental"}, {K: "sleep", N: 2300}, {K: "status", S: "jobU"}})
	}
	sc.Knobs["schedSeed"] = int64(g.r.Uint64() >> 1)
	sc.Knobs["preemptPct"] = int64(g.PickInt([]int{5, 20, 40}))
	if !focused && g.P(0.22) {
		// second focused variant: the sink (or source) dataset of a copy job disappears at some point of a run a
		// client has started, and may come back
		jt := g.Pick([]string{"fullsync", "fullsync", "incremental"})
		cfg := map[string]any{"id": "job1", "title": "title-job1", "source": map[string]any{"Type": "DatasetSource", "Name": "dA"}, "sink": map[string]any{"Type": "DatasetSink", "Name": "dC"},
			"paused": true, "batchSize": float64(g.Range(1, 3)), "triggers": []any{map[string]any{"triggerType": "cron", "jobType": jt, "schedule": "@every 8760h"}}}
		sc.Ops[len(sc.Ops)-njobs] = Op{K: "addJob", M: cfg}
		var ents []Ent
		for i := g.Range(2, 6); i > 0; i-- {
			ents = append(ents, Ent{"id": fmt.Sprintf("%sold%d", MkE, i), "props": map[string]any{MkS + "v": float64(g.Intn(1000))}, "refs": map[string]any{}})
		}
		sc.Ops = append([]Op{{K: "batch", DS: "dA", Ents: ents}}, sc.Ops...)
		sc.Tasks[0] = append([]Op{{K: "runJob", S: "job1", DS: jt}}, sc.Tasks[0]...)
		victim := g.Pick([]string{"dC", "dC", "dA", "dA"})
		if victim == "dA" {
			// (the focused job keeps its definition in this variant: the oracle is about what this copy job delivers)
			for ti := range sc.Tasks {
				var kept []Op
				for _, op := range sc.Tasks[ti] {
					if (op.K == "addJob" && fmt.Sprint(op.M["id"]) == "job1") || (op.K == "deleteJob" && op.S == "job1") {
						continue
					}
					kept = append(kept, op)
				}
				sc.Tasks[ti] = kept
			}
			// the source goes away: from then on the run must not deliver what only the deleted dataset held
			sc.Knobs["dropOracle"] = 1
			cfg["batchSize"] = float64(1)
			if g.P(0.6) {
				cfg["source"].(map[string]any)["LatestOnly"] = true
			}
		}
		drop := []Op{{K: "deleteDataset", DS: victim}}
		if g.P(0.6) {
			pts := []string{"pipeline.full.afterStart", "pipeline.full.afterBatch", "pipeline.full.afterBatch", "pipeline.full.beforeEnd"}
			if jt == "incremental" {
				pts = []string{"pipeline.incr.afterSink", "pipeline.incr.afterToken"}
			}
			drop[0].M = map[string]any{"after": g.Pick(pts), "hit": g.Range(1, 4)}
		}
		if g.P(0.5) {
			drop = append(drop, Op{K: "createDataset", DS: victim})
		}
		sc.Tasks = append(sc.Tasks, drop)
		sc.Knobs["preemptPct"] = int64(g.PickInt([]int{20, 40, 60}))
	}
}


// genC13j: a trigger-started job whose transform asks the hub for the prefix of a namespace (GetNamespacePrefix or
// AssertNamespacePrefix) - first while nobody has used that namespace, then again after a client (or the transform of
// another run) has introduced it.
func genC13j(g *G, sc *Scenario, tier string) {
	sc.Datasets = []string{"srcA", "sink", "other"}
	ns := g.Pick([]string{"http://later.example.org/ns/", "http://later.example.org/terms#", "https://later.example.org/a/b/"})
	fn := g.Pick([]string{"GetNamespacePrefix", "GetNamespacePrefix", "AssertNamespacePrefix"})
	code := "function transform_entities(entities) { var s = GetNamespacePrefix(\"" + ExS + "\"); var p = " + fn + "(\"" + ns + "\"); for (var i = 0; i < entities.length; i++) { SetProperty(entities[i], s, \"pfx\", \"\" + p); } return entities; }"
	cfg := jobConfig("job1", map[string]any{"Type": "DatasetSource", "Name": "srcA"}, map[string]any{"Type": "DatasetSink", "Name": "sink"},
		map[string]any{"Type": "JavascriptTransform", "Code": base64.StdEncoding.EncodeToString([]byte(code))}, "incremental", g.Range(1, 3))
	// (an incremental run works with copies of the transform, a fullsync run with the transform object itself)
	jt := g.Pick([]string{"incremental", "fullsync", "fullsync"})
	cfg["paused"] = false
	cfg["triggers"] = []any{map[string]any{"triggerType": "cron", "jobType": jt, "schedule": "@every 10m"}}
	sc.Ops = append(sc.Ops, Op{K: "addJob", M: cfg})
	mk := func(id string) Ent {
		return Ent{"id": MkE + id, "props": map[string]any{MkS + "v": float64(g.Intn(100))}, "refs": map[string]any{}}
	}
	for r := g.Range(0, 2); r > 0; r-- {
		sc.Ops = append(sc.Ops, Op{K: "batch", DS: "srcA", Ents: []Ent{mk(fmt.Sprintf("a%d", r))}}, Op{K: "triggerRun"})
	}
	if fn == "GetNamespacePrefix" || g.P(0.5) {
		// a client introduces the namespace
		sc.Ops = append(sc.Ops, Op{K: "batch", DS: "other", Ents: []Ent{{"id": ns + "thing", "props": map[string]any{ns + "key": "v"}, "refs": map[string]any{}}}})
	} else {
		// the transform itself introduced it (AssertNamespacePrefix) in an earlier run: make sure there was one
		sc.Ops = append(sc.Ops, Op{K: "batch", DS: "srcA", Ents: []Ent{mk("seed")}}, Op{K: "triggerRun"})
	}
	var later []any
	for r := g.Range(1, 2); r > 0; r-- {
		id := fmt.Sprintf("z%d", r)
		later = append(later, MkE+id)
		sc.Ops = append(sc.Ops, Op{K: "batch", DS: "srcA", Ents: []Ent{mk(id)}})
	}
	sc.Ops = append(sc.Ops, Op{K: "triggerRun"}, Op{K: "checkPrefixAnswers", DS: "sink", S: ns, A: later})
}

// genC07j: the JavaScript transform of a job that lives across runs (cron trigger) looks an entity of another
// dataset up (FindById) and asks for its relations (Query) for every entity it transforms and writes the answers
// into the entity. Then that other dataset is deleted: runs after the delete must be told nothing of it.
func genC07j(g *G, sc *Scenario, tier string) {
	sc.Datasets = []string{"srcA", "sink", "vX", "keep"}
	victim, friend := ExE+"victim", ExE+"friend"
	scope := "[]"
	if g.P(0.3) {
		scope = "[\"vX\"]"
	}
	code := "function transform_entities(entities) { var s = GetNamespacePrefix(\"" + ExS + "\"); for (var i = 0; i < entities.length; i++) { var f = FindById(\"" + victim + "\", " + scope + "); var n = 0; if (f != null && f.Properties != null) { for (var k in f.Properties) { n++; } } SetProperty(entities[i], s, \"found\", n); var q = Query([\"" + victim + "\"], \"" + ExS + "knows\", false, " + scope + "); SetProperty(entities[i], s, \"rels\", q == null ? 0 : q.length); var q2 = Query([\"" + friend + "\"], \"" + ExS + "knows\", true, " + scope + "); SetProperty(entities[i], s, \"back\", q2 == null ? 0 : q2.length); } return entities; }"
	jt := g.Pick([]string{"incremental", "fullsync"})
	cfg := jobConfig("job1", map[string]any{"Type": "DatasetSource", "Name": "srcA"}, map[string]any{"Type": "DatasetSink", "Name": "sink"},
		map[string]any{"Type": "JavascriptTransform", "Code": base64.StdEncoding.EncodeToString([]byte(code))}, jt, g.Range(1, 3))
	viaTrigger := g.P(0.7)
	if viaTrigger {
		cfg["paused"] = false
		cfg["triggers"] = []any{map[string]any{"triggerType": "cron", "jobType": jt, "schedule": "@every 10m"}}
	}
	run := Op{K: "triggerRun"}
	if !viaTrigger {
		run = Op{K: "runPlain", S: "job1", DS: jt}
	}
	sc.Ops = append(sc.Ops, Op{K: "addJob", M: cfg})
	mk := func(id string) Ent {
		return Ent{"id": MkE + id, "props": map[string]any{MkS + "v": float64(g.Intn(100))}, "refs": map[string]any{}}
	}
	sc.Ops = append(sc.Ops, Op{K: "batch", DS: "keep", Ents: []Ent{mk("friend")}})
	sc.Ops = append(sc.Ops, Op{K: "batch", DS: "vX", Ents: []Ent{{"id": MkE + "victim", "props": map[string]any{MkS + "v": float64(1)}, "refs": map[string]any{MkS + "knows": MkE + "friend"}}}})
	before := []any{}
	for r := g.Range(1, 2); r > 0; r-- {
		id := fmt.Sprintf("a%d", r)
		before = append(before, MkE+id)
		sc.Ops = append(sc.Ops, Op{K: "batch", DS: "srcA", Ents: []Ent{mk(id)}})
	}
	sc.Ops = append(sc.Ops, run, Op{K: "checkTransformSaw", DS: "sink", N: 1, A: before})
	sc.Ops = append(sc.Ops, Op{K: "deleteDataset", DS: "vX"})
	if g.P(0.3) {
		sc.Ops = append(sc.Ops, Op{K: "createDataset", DS: "vX"})
	}
	after := []any{}
	for r := g.Range(1, 2); r > 0; r-- {
		id := fmt.Sprintf("z%d", r)
		after = append(after, MkE+id)
		sc.Ops = append(sc.Ops, Op{K: "batch", DS: "srcA", Ents: []Ent{mk(id)}})
	}
	if jt == "fullsync" {
		after = append(after, before...)
	}
	sc.Ops = append(sc.Ops, run, Op{K: "checkTransformSaw", DS: "sink", N: 0, A: after})
}

// genC12h: consumers of the HTTP change feed (full and latest-only, page sizes 0-2) keep their tokens across
// compactions of a dataset whose history has runs of identical versions, some of them at the very end of the log.
func genC12h(g *G, sc *Scenario, tier string) {
	sc.Datasets = []string{"dsA"}
	pool := []string{MkE + "h1", MkE + "h2", MkE + "h3"}[:g.Range(2, 3)]
	write := func() Op {
		var ents []Ent
		for k := g.Range(1, 2); k > 0; k-- {
			e := Ent{"id": g.Pick(pool), "props": map[string]any{MkS + "v": g.Pick([]string{"a", "b"})}, "refs": map[string]any{}}
			if g.P(0.15) {
				e["deleted"] = true
			}
			ents = append(ents, e)
		}
		return Op{K: "batch", DS: "dsA", Ents: ents}
	}
	nCons := g.Range(1, 3)
	type cons struct {
		latest bool
		limit  int
	}
	var cs []cons
	for k := 0; k < nCons; k++ {
		cs = append(cs, cons{latest: g.P(0.4), limit: g.PickInt([]int{0, 0, 1, 2, 3})})
	}
	follow := func(k int) Op {
		op := Op{K: "follow", DS: "dsA", Reader: k, Latest: cs[k].latest, Limit: cs[k].limit}
		return op
	}
	drain := func() {
		// every consumer reads until it is at the end (page sizes of one need a few requests)
		for k := range cs {
			n := 1
			if cs[k].limit > 0 {
				n = 8/cs[k].limit + 2
			}
			for ; n > 0; n-- {
				sc.Ops = append(sc.Ops, follow(k))
			}
		}
	}
	sc.Ops = append(sc.Ops, write())
	for n := g.Range(2, 7); n > 0; n-- {
		switch x := g.Intn(10); {
		case x < 4:
			sc.Ops = append(sc.Ops, write())
		case x < 6:
			sc.Ops = append(sc.Ops, Op{K: "dup", DS: "dsA", S: g.Pick(pool)})
		case x < 9:
			sc.Ops = append(sc.Ops, follow(g.Intn(nCons)))
		default:
			sc.Ops = append(sc.Ops, Op{K: "compact", DS: "dsA", N: g.PickInt([]int{1, 2, 100000})})
		}
	}
	if g.P(0.7) {
		// the log ends in duplicates
		for k := g.Range(1, 2); k > 0; k-- {
			sc.Ops = append(sc.Ops, Op{K: "dup", DS: "dsA", S: g.Pick(pool)})
		}
	}
	drain()
	sc.Ops = append(sc.Ops, Op{K: "compact", DS: "dsA", N: g.PickInt([]int{1, 2, 100000})})
	if g.P(0.3) {
		sc.Ops = append(sc.Ops, Op{K: "follow", DS: "dsA", Reader: 9, S: "jsonld"})
	}
	for k := range cs {
		sc.Ops = append(sc.Ops, follow(k))
	}
	sc.Ops = append(sc.Ops, write())
	drain()
	if g.P(0.5) {
		sc.Ops = append(sc.Ops, Op{K: "dup", DS: "dsA", S: g.Pick(pool)}, Op{K: "compact", DS: "dsA", N: 1})
		drain()
	}
}
