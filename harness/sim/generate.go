package verifsim

import "fmt"

// Generate builds the scenario for (profile, seed, tier). Pure function of its arguments.
func Generate(profile string, seed uint64, tier string) (*Scenario, error) {
	g := NewG(seed*1000003 + hashStr(profile))
	sc := &Scenario{Profile: profile, Seed: seed, Tier: tier, Knobs: map[string]int64{}}
	switch profile {
	case "C01":
		sc.Property = "C01"
		c := g.baseStoreCfg(tier)
		if len(c.Datasets) < 2 && g.P(0.7) {
			c.Datasets = []string{"dsA", "dsB"}
		}
		sc.Datasets = c.Datasets
		sc.Ops = g.GenStoreHistory(c)
	case "C02":
		sc.Property = "C02"
		c := g.baseStoreCfg(tier)
		if g.P(0.6) {
			c.Datasets = c.Datasets[:1]
		}
		c.PRepeat = 0.35
		c.Readers = g.Range(1, 3)
		c.PRead = 0.35
		sc.Datasets = c.Datasets
		sc.Ops = g.GenStoreHistory(c)
		latest := make([]bool, c.Readers)
		for i := range latest {
			latest[i] = g.P(0.4)
		}
		for i := range sc.Ops {
			if sc.Ops[i].K == "read" {
				sc.Ops[i].Latest = latest[sc.Ops[i].Reader]
				sc.Ops[i].DS = c.Datasets[sc.Ops[i].Reader%len(c.Datasets)]
			}
		}
		if g.P(0.3) {
			sc.Ops = append(sc.Ops, Op{K: "readBeyond", DS: c.Datasets[0], Limit: g.Intn(3)})
		}
	case "C03":
		sc.Property = "C03"
		c := g.baseStoreCfg(tier)
		c.PRefHeavy = 0.9
		c.PNested = 0
		if c.NOps > 15 {
			sc.Knobs["checkEvery"] = 3
		}
		sc.Datasets = c.Datasets
		sc.Ops = g.GenStoreHistory(c)
	default:
		return genOther(g, sc, profile, tier)
	}
	return sc, nil
}

func hashStr(s string) uint64 {
	var h uint64 = 1469598103934665603
	for i := 0; i < len(s); i++ {
		h ^= uint64(s[i])
		h *= 1099511628211
	}
	return h
}

// Execute dispatches a scenario to the executor of its profile.
func Execute(sc *Scenario) *Verdict {
	switch sc.Profile {
	case "C01", "C02", "C03":
		return RunStoreScenario(sc)
	}
	return execOther(sc)
}

func genOther(g *G, sc *Scenario, profile, tier string) (*Scenario, error) {
	return nil, fmt.Errorf("unknown profile %q", profile)
}

func execOther(sc *Scenario) *Verdict {
	return &Verdict{Verdict: "error", Message: "unknown profile " + sc.Profile, Seed: sc.Seed}
}
