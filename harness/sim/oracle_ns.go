package verifsim

import (
	"fmt"
	"sort"
	"strings"
)

// C13: namespace prefixes and internal identifiers are one-to-one and permanent.

type NSMem struct {
	Prefix map[string]string // expansion -> prefix, as handed out by the hub
	IDs    map[string]uint64 // CURIE -> internal id, as observed after acknowledged writes
}

func NewNSMem() *NSMem { return &NSMem{Prefix: map[string]string{}, IDs: map[string]uint64{}} }

func (m *NSMem) Clone() *NSMem {
	n := NewNSMem()
	for k, v := range m.Prefix {
		n.Prefix[k] = v
	}
	for k, v := range m.IDs {
		n.IDs[k] = v
	}
	return n
}

// ObserveNS checks the hub's current mappings (bijection, agreement between the two directions,
// permanence of everything in mem) and then records them in mem. curies are identifiers whose
// internal ids should be looked at.
func ObserveNS(h *Hub, mem *NSMem, curies []string, where string) *Violation {
	live := h.Store.NamespaceManager.GetPrefixToExpansionMap()
	p2e := make(map[string]string, len(live))
	for k, v := range live {
		p2e[k] = v
	}
	seen := map[string]string{}
	for _, p := range sortedKeys(p2e) {
		e := p2e[p]
		if q, dup := seen[e]; dup {
			return viol("C13", "namespaces", "two-prefixes-one-expansion"+where, "expansion %q has two prefixes: %s and %s", e, q, p)
		}
		seen[e] = p
		back, err := h.Store.NamespaceManager.GetPrefixMappingForExpansion(e)
		if err != nil || back != p {
			return viol("C13", "namespaces", "directions-disagree"+where, "prefix %s expands to %q but that expansion maps to prefix %q (err=%v)", p, e, back, err)
		}
		if full, err := h.Store.ExpandCurie(p + ":x"); err != nil || full != e+"x" {
			return viol("C13", "namespaces", "expand-disagrees"+where, "ExpandCurie(%s:x) = %q, %v; want %q", p, full, err, e+"x")
		}
	}
	for e, p := range mem.Prefix {
		if cur, ok := seen[e]; !ok {
			return viol("C13", "namespaces", "mapping-lost"+where, "expansion %q was handed out as prefix %s and is now unknown", e, p)
		} else if cur != p {
			return viol("C13", "namespaces", "mapping-changed"+where, "expansion %q was handed out as prefix %s and is now %s", e, p, cur)
		}
	}
	for e, p := range seen {
		mem.Prefix[e] = p
	}
	// identifiers
	ids := map[uint64]string{}
	all := append([]string(nil), curies...)
	for c := range mem.IDs {
		all = append(all, c)
	}
	sort.Strings(all)
	for _, c := range all {
		id, ok := h.Store.VerifIDForURI(c)
		if old, had := mem.IDs[c]; had {
			if !ok {
				return viol("C13", "identifiers", "id-lost"+where, "identifier %s had internal id %d and is now unknown", c, old)
			}
			if id != old {
				return viol("C13", "identifiers", "id-changed"+where, "identifier %s had internal id %d and now has %d", c, old, id)
			}
		}
		if !ok {
			continue
		}
		if other, dup := ids[id]; dup && other != c {
			return viol("C13", "identifiers", "two-identifiers-one-id"+where, "internal id %d is shared by %s and %s", id, other, c)
		}
		ids[id] = c
		back, err := h.Store.VerifURIForID(id)
		if err != nil || back != c {
			return viol("C13", "identifiers", "id-directions-disagree"+where, "identifier %s has internal id %d which maps back to %q (err=%v)", c, id, back, err)
		}
		mem.IDs[c] = id
	}
	return nil
}

// RoundTrip compacts a URI to a CURIE and expands it again.
func RoundTrip(h *Hub, uri string, mem *NSMem) *Violation {
	curie, err := h.Store.GetNamespacedIdentifier(uri, nil)
	if err != nil {
		return viol("C13", "roundtrip", "compact-rejected:"+uriShape(uri), "GetNamespacedIdentifier(%q) failed: %v", uri, err)
	}
	if curie == "" {
		return viol("C13", "roundtrip", "compact-empty:"+uriShape(uri), "GetNamespacedIdentifier(%q) returned an empty identifier without error", uri)
	}
	back, err := h.Store.ExpandCurie(curie)
	if err != nil || back != uri {
		return viol("C13", "roundtrip", "expand-differs:"+uriShape(uri), "%q compacts to %q which expands to %q (err=%v)", uri, curie, back, err)
	}
	i := strings.Index(curie, ":")
	exp := strings.TrimSuffix(uri, curie[i+1:])
	if p, ok := mem.Prefix[exp]; ok && p != curie[:i] {
		return viol("C13", "roundtrip", "prefix-differs-from-handed-out", "%q uses prefix %s but expansion %q was handed out as %s", uri, curie[:i], exp, p)
	}
	return nil
}

func uriShape(u string) string {
	var parts []string
	if strings.HasPrefix(u, "https://") {
		parts = append(parts, "https")
	} else {
		parts = append(parts, "http")
	}
	if strings.Contains(u, "#") {
		parts = append(parts, "hash")
	}
	rest := u[strings.Index(u, "://")+3:]
	if strings.Contains(rest, "/") {
		parts = append(parts, "slash")
	}
	if strings.HasSuffix(u, "/") || strings.HasSuffix(u, "#") {
		parts = append(parts, "empty-local")
	}
	if strings.Contains(rest, ":") {
		parts = append(parts, "colon")
	}
	return strings.Join(parts, "+")
}

// ContextAliasing tells whether a context handed to a reader changes when somebody else
// introduces a new namespace afterwards: then readers iterate (serialise) a map that writers
// mutate, which the Go runtime answers with "fatal error: concurrent map iteration and map write".
func ContextAliasing(h *Hub, fresh string) *Violation {
	type probe struct {
		name string
		get  func() map[string]string
	}
	probes := []probe{
		{"NamespaceManager.GetContext(nil)", func() map[string]string { return h.Store.NamespaceManager.GetContext(nil).Namespaces }},
		{"Store.GetGlobalContext(false)", func() map[string]string { return h.Store.GetGlobalContext(false).Namespaces }},
		{"Store.GetGlobalContext(true)", func() map[string]string { return h.Store.GetGlobalContext(true).Namespaces }},
		{"NamespaceManager.GetPrefixToExpansionMap()", func() map[string]string { return h.Store.NamespaceManager.GetPrefixToExpansionMap() }},
	}
	if ds := h.Dataset("dsA"); ds != nil {
		probes = append(probes, probe{"Dataset.GetContext()", func() map[string]string { return ds.GetContext().Namespaces }})
	}
	held := make([]map[string]string, len(probes))
	sizes := make([]int, len(probes))
	for i, p := range probes {
		held[i] = p.get()
		sizes[i] = len(held[i])
	}
	if _, err := h.Store.NamespaceManager.AssertPrefixMappingForExpansion(fresh); err != nil {
		return viol("C13", "namespaces", "assert-rejected", "AssertPrefixMappingForExpansion(%q): %v", fresh, err)
	}
	for i, p := range probes {
		if len(held[i]) != sizes[i] {
			return viol("C13", "context-race", "context-aliases-live-map:"+p.name, "the namespace map returned by %s grew from %d to %d entries when another caller introduced %q: readers share the live map with writers (unsynchronised concurrent map iteration and write)", p.name, sizes[i], len(held[i]), fresh)
		}
	}
	return nil
}

var _ = fmt.Sprint
