package verifsim

import (
	"net/http"
	"context"
	"encoding/base64"
	"crypto/sha256"
	"encoding/json"
	"errors"
	"fmt"
	"os"
	"sort"
	"strconv"
	"strings"
	"sync"
	"time"

	"github.com/mimiro-io/datahub/internal/server"
)

// Sequential job-level executor: source writes interleaved with job runs that are driven to
// completion on the fake clock, with faults placed inside the runs (C08, C10, C17, C18).

type JobRun struct {
	Sc    *Scenario
	H     *Hub
	M     *Model // model of the datasets written by the scenario (sources)
	Stats map[string]int64
	trace []byte
	Start time.Time
	Pool  []string
	Preds []string
	jobs  map[string]map[string]any
	step  int
	// per run fault state
	runSpec        map[string]any
	seenSink       int
	seenPoint      map[string]int
	delivered      [][]string // batches that reached the sink in this run (canonical ids)
	toTransform    [][]string
	curJob         string   // C17: the job of the tick in progress
	carryIn        []string // C10: what a run killed inside a batch passed to the transform / the sink
	carryOut       []string
	svc            *c10Service // C10: the service behind an HttpTransform job
	crashDirs      []string
	lastRunFailed  bool
	failNextCommit bool
	c18            *c18Track
	midErr         *Violation
	midSeen        bool // the mid-run write of this runFix has happened ...
	midIdx         int  // ... when this many deliveries of the round had been recorded
	recMu          sync.Mutex     // transform workers report concurrently
	consumed       map[string]int // job id -> number of source feed entries delivered by successful incremental runs
}

var traceOut = os.Getenv("VERIF_TRACE") != ""

func (r *JobRun) ev(format string, args ...any) {
	if traceOut {
		fmt.Fprintf(os.Stderr, "EV "+format+"\n", args...)
	}
	r.trace = append(r.trace, fmt.Sprintf(format, args...)...)
	r.trace = append(r.trace, '\n')
}

var errSinkInjected = errors.New("injected sink failure")

func entIDs(h *Hub, subject any) []string {
	var out []string
	if ents, ok := subject.([]*server.Entity); ok {
		for _, e := range ents {
			out = append(out, h.expand(e.ID))
		}
	}
	return out
}

// entsOf reads entity specs from a scenario value (typed when generated, generic after a JSON round trip).
func entsOf(v any) []Ent {
	switch l := v.(type) {
	case []Ent:
		return l
	case []any:
		var out []Ent
		for _, x := range l {
			if m, ok := x.(map[string]any); ok {
				out = append(out, Ent(m))
			}
		}
		return out
	}
	return nil
}

func intOf(m map[string]any, k string) int {
	if m == nil {
		return 0
	}
	switch v := m[k].(type) {
	case float64:
		return int(v)
	case int:
		return v
	case int64:
		return int(v)
	}
	return 0
}

// installFaults arms the hooks for one run.
func (r *JobRun) installFaults(jobID string, spec map[string]any) {
	r.runSpec = spec
	r.seenSink = 0
	r.seenPoint = map[string]int{}
	r.delivered = nil
	r.toTransform = nil
	if r.svc != nil {
		r.svc.reset(spec)
	}
	hooks.onFaultOn = func(owner any, name string, subject any, hit int64) error {
		r.recMu.Lock()
		defer r.recMu.Unlock()
		switch name {
		case "sink.dataset":
			r.seenSink++
			if mw, ok := spec["midWrite"].(map[string]any); ok && intOf(mw, "at") == r.seenSink {
				// a client writes while the run is between two deliveries; simulated time passes around it
				r.recMu.Unlock()
				time.Sleep(time.Millisecond)
				v := r.applyBatch(fmt.Sprint(mw["ds"]), entsOf(mw["ents"]))
				time.Sleep(time.Millisecond)
				r.recMu.Lock()
				r.Stats["mid_run_writes"]++
				r.midIdx = len(r.delivered) // the delivery in progress was read before the write
				r.midSeen = true
				if v != nil && r.midErr == nil {
					r.midErr = v
				}
			}
			if k := intOf(spec, "sinkStoreFailAt"); k > 0 && r.seenSink == k {
				// let the sink's own StoreEntities fail at its data commit
				r.failNextCommit = true
			}
			if k := intOf(spec, "sinkFailAt"); k > 0 && r.seenSink == k {
				r.Stats["fault_sink_error"]++
				return errSinkInjected
			}
			if rej, ok := spec["rejectIds"].([]any); ok && len(rej) > 0 {
				for _, id := range entIDs(r.H, subject) {
					for _, x := range rej {
						if markerToFull(fmt.Sprint(x)) == id {
							r.Stats["fault_sink_reject"]++
							return fmt.Errorf("scripted sink rejects %s", shortURI(id))
						}
					}
				}
			}
			r.delivered = append(r.delivered, entIDs(r.H, subject))
		case "transform.batch":
			r.toTransform = append(r.toTransform, entIDs(r.H, subject))
			if k := intOf(spec, "killTransformAt"); k > 0 && len(r.toTransform) == k {
				// the job is killed while a transform worker of the current batch is starting
				r.Stats["fault_kill_in_transform"]++
				r.recMu.Unlock()
				r.H.Full.Sched.KillJob(jobID)
				r.recMu.Lock()
			}
		}
		return nil
	}
	// transform workers run one at a time, in the order they were started: which worker finishes first is
	// then no longer left to the Go scheduler and a run is repeatable
	turn := make(chan struct{}, 1)
	hooks.onGo = func(name string) {
		if name == "transform.worker" {
			turn <- struct{}{}
		}
	}
	hooks.onPointAlways = func(name string) {
		if name == "transform.worker.done" {
			select {
			case <-turn:
			default:
			}
		}
	}
	hooks.onFault = func(owner any, name string, hit int64) error {
		r.recMu.Lock()
		defer r.recMu.Unlock()
		if r.failNextCommit && name == "StoreEntities.dataCommit" {
			r.failNextCommit = false
			r.Stats["fault_sink_store_error"]++
			return errSinkInjected
		}
		return nil
	}
	hooks.onPoint = func(owner any, name string, hit int64) {
		r.recMu.Lock()
		defer r.recMu.Unlock()
		r.seenPoint[name]++
		n := r.seenPoint[name]
		if at, _ := spec["killPoint"].(string); at == name && intOf(spec, "killAt") == n {
			r.Stats["fault_kill"]++
			r.H.Full.Sched.KillJob(jobID)
		}
		if at, _ := spec["crashPoint"].(string); at == name && intOf(spec, "crashAt") == n {
			d := NewDir("jobcrash")
			if err := CopyDirSparse(r.H.Dir, d); err == nil {
				r.crashDirs = append(r.crashDirs, d)
				r.Stats["fault_crash_at_point"]++
			}
		}
	}
}

func (r *JobRun) clearFaults() {
	hooks.onGo = nil
	hooks.onPointAlways = nil
	hooks.onFault = nil
	r.failNextCommit = false
	hooks.onFaultOn = nil
	hooks.onPoint = nil
}

func sourceNames(cfg map[string]any) []string {
	if ms, ok := cfg["_src"].(string); ok {
		return []string{ms} // the dataset the job's source stands for (it reads it through a proxy dataset)
	}
	src, _ := cfg["source"].(map[string]any)
	if src == nil {
		return nil
	}
	if src["Type"] == "UnionDatasetSource" {
		var out []string
		if l, ok := src["DatasetSources"].([]any); ok {
			for _, x := range l {
				if m, ok := x.(map[string]any); ok {
					out = append(out, fmt.Sprint(m["Name"]))
				}
			}
		}
		return out
	}
	return []string{fmt.Sprint(src["Name"])}
}

func sinkName(cfg map[string]any) string {
	s, _ := cfg["sink"].(map[string]any)
	if s == nil {
		return ""
	}
	return fmt.Sprint(s["Name"])
}

// checkConverged: the sink's latest view equals the sources' latest view.
func (r *JobRun) checkConverged(h *Hub, cfg map[string]any, jobType, where string) *Violation {
	prop := r.Sc.Property
	sink := h.Dataset(sinkName(cfg))
	if sink == nil {
		return viol(prop, "convergence", "sink-missing", "sink dataset missing")
	}
	res, err := sink.GetEntities("", 0)
	if err != nil {
		return viol(prop, "convergence", "sink-error", "%v", err)
	}
	got := map[string]string{}
	for _, e := range res.Entities {
		c := h.Canon(e)
		if _, dup := got[c.ID]; dup {
			return viol(prop, "convergence", "sink-duplicate", "sink lists %s twice", c.ID)
		}
		got[c.ID] = c.String()
	}
	want := map[string]map[string]bool{}
	for _, sn := range sourceNames(cfg) {
		d := r.M.DS[sn]
		if d == nil {
			continue
		}
		for id := range d.Latest {
			if want[id] == nil {
				want[id] = map[string]bool{}
			}
			want[id][d.LatestOf(id).String()] = true
		}
	}
	for _, id := range sortedKeys(want) {
		g, ok := got[id]
		if !ok {
			return viol(prop, "convergence", where+":missing-in-sink", "%s: source entity %s never reached the sink (source has %v)", where, shortURI(id), keysOf(want[id]))
		}
		if !want[id][g] {
			return viol(prop, "convergence", where+":stale-in-sink", "%s: sink has %s, the source's latest version is %v", where, g, keysOf(want[id]))
		}
	}
	for _, id := range sortedKeys(got) {
		if want[id] != nil {
			continue
		}
		if jobType == "fullsync" && !strings.Contains(got[id], `"deleted":true`) {
			return viol(prop, "convergence", where+":extra-live-in-sink", "%s: after a fullsync the sink still has live %s which no source contains", where, got[id])
		}
		if jobType != "fullsync" {
			return viol(prop, "convergence", where+":unknown-in-sink", "%s: sink has %s which no source contains", where, got[id])
		}
	}
	return nil
}

func keysOf(m map[string]bool) []string {
	var l []string
	for k := range m {
		l = append(l, k)
	}
	sort.Strings(l)
	return l
}

func (r *JobRun) sinkFeedLen(h *Hub, cfg map[string]any) int {
	sink := h.Dataset(sinkName(cfg))
	if sink == nil {
		return -1
	}
	ch, err := sink.GetChanges(0, 0, false)
	if err != nil {
		return -1
	}
	return len(ch.Entities)
}

// RunJobScenario executes job-level sequential profiles.
func RunJobScenario(sc *Scenario) (vd *Verdict) {
	vd = &Verdict{Verdict: "ok", Property: sc.Property, Profile: sc.Profile, Seed: sc.Seed}
	r := &JobRun{Sc: sc, M: NewModel(), Stats: map[string]int64{}, Start: time.Now(), jobs: map[string]map[string]any{}, consumed: map[string]int{}}
	r.Pool, r.Preds = collectNames(sc)
	h, err := OpenJobsHub(NewDir("jobhub"), sc.Knobs)
	if err != nil {
		vd.Verdict, vd.Message = "error", err.Error()
		return
	}
	r.H = h
	for _, d := range sc.Datasets {
		if d == "proxyP" && r.svc == nil {
			r.svc = &c10Service{r: r}
			oldT := http.DefaultTransport
			http.DefaultTransport = r.svc
			defer func() { http.DefaultTransport = oldT }()
		}
	}
	for i := range sc.Ops {
		if t, ok := sc.Ops[i].M["transform"].(map[string]any); ok && sc.Ops[i].K == "addJob" && t["Type"] == "HttpTransform" && r.svc == nil {
			r.svc = &c10Service{r: r}
			oldT := http.DefaultTransport
			http.DefaultTransport = r.svc
			defer func() { http.DefaultTransport = oldT }()
		}
	}
	defer func() {
		r.clearFaults()
		for _, d := range r.crashDirs {
			os.RemoveAll(d)
		}
		_ = r.H.Close()
		os.RemoveAll(r.H.Dir)
	}()
	fail := func(v *Violation, step int) {
		vd.Verdict = "violation"
		if v.Oracle == "harness" {
			vd.Verdict = "invalid"
		}
		vd.Property, vd.Oracle, vd.Signature, vd.Message, vd.Step = sc.Property, v.Oracle, v.Signature, v.Message, step
	}
	defer func() {
		for k, v := range PointHits() {
			if strings.HasPrefix(k, "pipeline.") || strings.HasPrefix(k, "job.") || strings.HasPrefix(k, "sink.") || strings.HasPrefix(k, "transform.") {
				r.Stats["point_"+k] += v
			}
		}
		vd.Stats = r.Stats
		h := fmt.Sprintf("%x", sha8(r.trace))
		vd.TraceHash = h
		vd.SimNS = int64(time.Since(r.Start))
		vd.Nontrivial = r.Stats["job_runs"] >= 1 && r.Stats["commits"] >= 1
	}()
	for _, d := range sc.Datasets {
		var dcfg *server.CreateDatasetConfig
		if d == "proxyP" {
			// a proxy dataset in front of a remote that serves the changes of srcA
			dcfg = &server.CreateDatasetConfig{ProxyDatasetConfig: &server.ProxyDatasetConfig{RemoteURL: "http://remote.sim/datasets/srcA"}}
		}
		if _, err := h.Dsm.CreateDataset(d, dcfg); err != nil {
			vd.Verdict, vd.Message = "error", err.Error()
			return
		}
		r.M.Create(d)
	}
	for i := range sc.Ops {
		op := &sc.Ops[i]
		r.step = i
		d := time.Duration(op.Sleep)
		if d < 1 {
			d = 1
		}
		time.Sleep(d)
		switch op.K {
		case "batch":
			if jid, _ := op.M["runInside"].(string); jid != "" {
				// a run of the job (its first one, a full sync that notes how far the dependencies have got, or a later
				// one) starts and ends while this write is in flight: stored, not yet committed
				done := false
				var runErr error
				prev := hooks.onPoint
				hooks.onPoint = func(owner any, name string, h int64) {
					if name == "StoreEntities.beforeIDCommit" && !done {
						done = true
						hooks.onPoint = prev
						r.installFaults(jid, map[string]any{})
						_, ended, err := r.H.RunJobToEnd(jid, "incremental", 2*time.Hour)
						r.clearFaults()
						if err != nil || !ended {
							runErr = fmt.Errorf("run inside a write: %v ended=%v", err, ended)
						}
						if r.c18 == nil {
							r.c18 = &c18Track{changed: map[string]map[string]bool{}, prev: NewModel(), tokens: map[string]uint64{}}
						}
						r.c18.carry = map[string]bool{}
						for _, b := range r.delivered {
							for _, x := range b {
								r.c18.carry[x] = true
							}
						}
						r.Stats["job_runs"]++
						r.Stats["runs_inside_a_write"]++
					}
				}
				v := r.applyBatch(op.DS, op.Ents)
				hooks.onPoint = prev
				if v == nil && runErr != nil {
					v = viol("C18", "job-run", "run-failed", "%v", runErr)
				}
				if v != nil {
					fail(v, i)
					return
				}
				r.c18.inflightDS = op.DS
				r.c18.inflight = nil
				for _, e := range op.Ents {
					r.c18.inflight = append(r.c18.inflight, CanonSpec(e).ID)
				}
				break
			}
			if v := r.applyBatch(op.DS, op.Ents); v != nil {
				fail(v, i)
				return
			}
		case "addJob":
			// predicates of MultiSource joins are CURIEs: resolve the markers against this hub's prefixes
			if src, ok := op.M["source"].(map[string]any); ok {
				if deps, ok := src["_Dependencies"].([]any); ok && src["_track"] == true {
					// track_queries form: each path is walked from the main dataset back to its dependency dataset; a
					// join declared inverse is a plain hop in that direction and vice versa
					code := "function track_queries(reg) {\n"
					for _, d := range deps {
						dm := d.(map[string]any)
						joins := dm["joins"].([]any)
						line := "reg"
						for k := len(joins) - 1; k >= 0; k-- {
							jm := joins[k].(map[string]any)
							target := fmt.Sprint(dm["dataset"])
							if k > 0 {
								target = fmt.Sprint(joins[k-1].(map[string]any)["dataset"])
							}
							fn := "iHop"
							if inv, _ := jm["inverse"].(bool); inv {
								fn = "hop"
							}
							line += fmt.Sprintf(".%s(%q, %q)", fn, target, r.H.curie(fmt.Sprint(jm["_pred"])))
						}
						code += line + ";\n"
					}
					code += "}\nfunction transform_entities(entities) { return entities; }\n"
					op.M["transform"] = map[string]any{"Type": "JavascriptTransform", "Code": base64.StdEncoding.EncodeToString([]byte(code))}
					r.Stats["track_queries_jobs"]++
				}
				if deps, ok := src["Dependencies"].([]any); ok {
					for _, d := range deps {
						for _, j := range d.(map[string]any)["joins"].([]any) {
							jm := j.(map[string]any)
							if p, ok := jm["_pred"].(string); ok {
								jm["predicate"] = r.H.curie(p)
							}
						}
					}
				}
			}
			if err := r.H.AddJobJSON(op.M); err != nil {
				fail(viol(sc.Property, "job-config", "job-rejected", "AddJob: %v", err), i)
				return
			}
			r.jobs[fmt.Sprint(op.M["id"])] = op.M
			r.ev("addJob")
		case "triggerRun":
			// the job's own cron trigger fires (pipeline and transform objects live across such runs)
			if !r.H.RunJobByTrigger(2 * time.Hour) {
				fail(viol(sc.Property, "job-run", "job-hangs", "job still running after 2h of simulated time"), i)
				return
			}
			r.Stats["job_runs"]++
			r.Stats["runs_by_trigger"]++
			r.ev("triggerRun at %v", time.Since(r.Start).Round(time.Minute))
		case "checkPrefixAnswers":
			// what the transform of a long-lived job was told when it asked for the prefix of a namespace: the entities it
			// wrote carry the answer. Entities written while the namespace was unknown may carry an empty answer; entities
			// written after the hub handed out a prefix must carry that prefix
			ds := r.H.Dataset(op.DS)
			want := ""
			for p, e := range r.H.Store.NamespaceManager.GetPrefixToExpansionMap() {
				if e == op.S {
					want = p
				}
			}
			if ds == nil || want == "" {
				fail(viol(sc.Property, "harness", "invalid", "dataset %s or namespace %s missing", op.DS, op.S), i)
				return
			}
			res, err := ds.GetEntities("", 0)
			if err != nil {
				fail(viol(sc.Property, "harness", "invalid", "%v", err), i)
				return
			}
			after := map[string]bool{}
			for _, x := range op.A {
				after[markerToFull(fmt.Sprint(x))] = true
			}
			checked := 0
			for _, e := range res.Entities {
				c := r.H.Canon(e)
				if !after[c.ID] {
					continue
				}
				checked++
				if got := strings.Trim(fmt.Sprint(c.Props[ExS+"pfx"]), "\""); got != want {
					fail(viol("C13", "namespaces", "transform-told-another-prefix", "a client introduced namespace %s (prefix %s); the transform of a job that had asked for it before, asked again when it transformed %s and was told %q", op.S, want, shortURI(c.ID), got), i)
					return
				}
			}
			if checked == 0 {
				fail(viol("C13", "namespaces", "transformed-entity-missing", "none of the entities %v reached the sink", op.A), i)
				return
			}
			r.Stats["prefix_answers_checked"] += int64(checked)
			r.ev("prefix answers %d for %s", checked, op.S)
		case "runFix":
			if v := r.runFixOp(op, i); v != nil {
				fail(v, i)
				return
			}
		case "runPlain":
			// a client starts the job through the run operation; only the outcome is looked at
			started, ended, err := r.H.RunJobToEnd(op.S, op.DS, 2*time.Hour)
			if err != nil || !started || !ended {
				fail(viol(sc.Property, "job-run", "run-rejected", "RunJob(%s,%s): %v started=%v ended=%v", op.S, op.DS, err, started, ended), i)
				return
			}
			r.Stats["job_runs"]++
			if res := r.H.LastResult(op.S); res == nil || res["lastError"] != "" {
				fail(viol(sc.Property, "job-run", "run-failed", "the run of %s ended with %v", op.S, res), i)
				return
			}
		case "deleteDataset":
			if err := r.H.Dsm.DeleteDataset(op.DS); err != nil {
				fail(viol(sc.Property, "harness", "invalid", "delete %s: %v", op.DS, err), i)
				return
			}
			r.Stats["datasets_deleted"]++
			r.ev("deleteDataset %s", op.DS)
			if sc.Property == "C18" {
				r.M.Drop(op.DS)
				if r.c18 != nil {
					delete(r.c18.changed, op.DS)
					delete(r.c18.commits, op.DS)
					r.c18.prev.Drop(op.DS)
				}
			}
		case "createDataset":
			if _, err := r.H.Dsm.CreateDataset(op.DS, nil); err != nil {
				fail(viol(sc.Property, "harness", "invalid", "create %s: %v", op.DS, err), i)
				return
			}
			if sc.Property == "C18" {
				r.M.Create(op.DS)
				if r.c18 != nil {
					r.c18.prev.Create(op.DS)
				}
			}
		case "resetJob":
			// the operator has the job start over (POST /job/{id}/reset without a token)
			if err := r.H.Full.Sched.ResetJob(op.S, ""); err != nil {
				fail(viol(sc.Property, "harness", "invalid", "reset %s: %v", op.S, err), i)
				return
			}
			if r.c18 != nil {
				r.c18.tokens = map[string]uint64{}
			}
			r.Stats["job_resets"]++
		case "checkTransformSaw":
			// what the job's transform was told about an entity of another dataset (lookup, outgoing and incoming
			// relations) when it transformed the entities named: everything (N=1, the dataset exists) or nothing (N=0,
			// the dataset has been deleted)
			ds := r.H.Dataset(op.DS)
			if ds == nil || (op.N == 0 && r.Stats["datasets_deleted"] == 0) {
				fail(viol(sc.Property, "harness", "invalid", "dataset %s missing, or nothing was deleted", op.DS), i)
				return
			}
			res, err := ds.GetEntities("", 0)
			if err != nil {
				fail(viol(sc.Property, "harness", "invalid", "%v", err), i)
				return
			}
			want := map[string]bool{}
			for _, x := range op.A {
				want[markerToFull(fmt.Sprint(x))] = true
			}
			checked := 0
			for _, e := range res.Entities {
				c := r.H.Canon(e)
				if !want[c.ID] {
					continue
				}
				checked++
				num := func(k string) int {
					f, _ := c.Props[ExS+k].(float64)
					return int(f)
				}
				found, rels, back := num("found"), num("rels"), num("back")
				if op.N == 0 && (found != 0 || rels != 0 || back != 0) {
					fail(viol("C07", "transform-reads", "transform-told-of-deleted-dataset", "dataset vX was deleted; when the job's transform then transformed %s, FindById gave it an entity with %d properties, Query %d outgoing and %d incoming relations written to that dataset", shortURI(c.ID), found, rels, back), i)
					return
				}
				if op.N == 1 && (found == 0 || rels != 1 || back != 1) {
					fail(viol("C07", "harness", "invalid", "before the delete the transform should see the entity: found=%d rels=%d back=%d", found, rels, back), i)
					return
				}
			}
			if checked == 0 {
				fail(viol("C07", "transform-reads", "transformed-entity-missing", "none of the entities %v reached the sink", op.A), i)
				return
			}
			r.Stats["transform_answers_checked"] += int64(checked)
		case "recreateSink":
			// the sink dataset is deleted and created again between two runs; the job stays configured
			cfg := r.jobs[op.S]
			name := sinkName(cfg)
			if err := r.H.Dsm.DeleteDataset(name); err != nil {
				fail(viol(sc.Property, "harness", "invalid", "delete sink: %v", err), i)
				return
			}
			time.Sleep(time.Nanosecond)
			if _, err := r.H.Dsm.CreateDataset(name, nil); err != nil {
				fail(viol(sc.Property, "harness", "invalid", "re-create sink: %v", err), i)
				return
			}
			r.Stats["sink_recreated"]++
			r.ev("recreateSink")
		case "tick":
			if v := r.tickOp(op, i); v != nil {
				fail(v, i)
				return
			}
		case "run":
			if v := r.runOp(op, i); v != nil {
				fail(v, i)
				return
			}
		case "restart":
			r.clearFaults()
			if err := r.H.Close(); err != nil {
				fail(viol(sc.Property, "restart", "close-failed", "%v", err), i)
				return
			}
			nh, err := OpenJobsHub(r.H.Dir, sc.Knobs)
			if err != nil {
				fail(viol(sc.Property, "restart", "reopen-failed", "%v", err), i)
				return
			}
			r.H = nh
			r.Stats["restarts"]++
			if op.N == 1 {
				// what the application does when it starts: the scheduler loads the stored job definitions and hands
				// them to the runner again
				if err := r.H.Full.Sched.Start(context.Background()); err != nil {
					fail(viol(sc.Property, "restart", "scheduler-start-failed", "%v", err), i)
					return
				}
				r.Stats["restarts_with_scheduler_start"]++
			}
			r.ev("restart")
		default:
			fail(viol(sc.Property, "harness", "invalid", "unknown op %q", op.K), i)
			return
		}
	}
	return
}

// applyBatch writes one batch as a client does and records it in the model.
func (r *JobRun) applyBatch(dsName string, ents []Ent) *Violation {
	ds := r.H.Dataset(dsName)
	if ds == nil {
		return viol(r.Sc.Property, "harness", "invalid", "no dataset %s", dsName)
	}
	if err := ds.StoreEntities(r.H.Entities(ents)); err != nil {
		return viol(r.Sc.Property, "write", "batch-rejected", "%v", err)
	}
	r.M.Batch(dsName, ents)
	r.Stats["commits"]++
	r.ev("batch %d", len(ents))
	if r.c18 == nil {
		r.c18 = &c18Track{changed: map[string]map[string]bool{}, prev: NewModel(), tokens: map[string]uint64{}}
	}
	if r.c18.changed[dsName] == nil {
		r.c18.changed[dsName] = map[string]bool{}
	}
	for _, e := range ents {
		r.c18.changed[dsName][CanonSpec(e).ID] = true
	}
	if r.c18.commits == nil {
		r.c18.commits = map[string][][]string{}
	}
	var ids []string
	for _, e := range ents {
		ids = append(ids, CanonSpec(e).ID)
	}
	r.c18.commits[dsName] = append(r.c18.commits[dsName], ids)
	return nil
}

// runOp performs one job run with its faults and evaluates the C08 oracles.
func (r *JobRun) runOp(op *Op, i int) *Violation {
	prop := r.Sc.Property
	id, jobType := op.S, op.DS
	cfg := r.jobs[id]
	if cfg == nil {
		return viol(prop, "harness", "invalid", "unknown job %s", id)
	}
	spec := op.M
	if spec == nil {
		spec = map[string]any{}
	}
	before := r.sinkFeedLen(r.H, cfg)
	srcCommits := r.Stats["commits"]
	r.installFaults(id, spec)
	var started, ended bool
	var err error
	if r.Sc.Knob("viaTrigger", 0) == 1 && spec["manual"] != true {
		// the job's own cron trigger starts the run (scenarios with this knob have one unpaused job, "@every 10m")
		started, ended = true, r.H.RunJobByTrigger(2*time.Hour)
		r.Stats["runs_by_trigger"]++
	} else {
		started, ended, err = r.H.RunJobToEnd(id, jobType, 2*time.Hour)
	}
	r.clearFaults()
	if err != nil || !started {
		return viol(prop, "job-run", "run-rejected", "RunJob(%s,%s): %v", id, jobType, err)
	}
	if !ended {
		return viol(prop, "job-run", "job-hangs", "job %s (%s) still running after 2h of simulated time", id, jobType)
	}
	r.Stats["job_runs"]++
	res := r.H.LastResult(id)
	lastErr := ""
	if res != nil {
		lastErr, _ = res["lastError"].(string)
	}
	faulty := intOf(spec, "sinkFailAt") > 0 && r.seenSink >= intOf(spec, "sinkFailAt") || lastErr != ""
	r.ev("run %s err=%v batches=%d sizes=%v par=%v", jobType, lastErr != "", len(r.delivered), batchSizes(r.delivered), cfg["_parallelism"])
	if res == nil {
		return viol(prop, "job-run", "no-result", "job %s ended without a stored result", id)
	}
	brokenAnswer := ""
	if r.svc != nil {
		brokenAnswer = r.svc.fired
	}
	if prop == "C10" && r.svc != nil {
		// whatever the outcome: the service is sent an entity at most once in a run
		seen := map[string]bool{}
		for _, x := range flatten(r.svc.got) {
			if seen[x] {
				return viol("C10", "transform-delivery", "entity-sent-to-the-transform-twice", "source entity %s was sent to the transform service twice in one run (the service's record of the run: %v)", shortURI(x), shortAll(flatten(r.svc.got)))
			}
			seen[x] = true
		}
	}
	if prop == "C10" && brokenAnswer != "" && lastErr == "" {
		return viol("C10", "transform-delivery", "run-succeeds-on-broken-transform-answer", "the transform service's answer to request %d of the run was broken off (%s), the run ended as a success: what the service had not yet returned never reaches the sink", intOf(r.svc.fault, "at"), brokenAnswer)
	}
	if prop == "C10" && lastErr != "" && (intOf(spec, "killTransformAt") > 0 || brokenAnswer != "") {
		// a killed run cannot deliver everything; what it delivered counts for the run that follows it
		r.carryIn = append(r.carryIn, flatten(r.toTransform)...)
		r.carryOut = append(r.carryOut, flatten(r.delivered)...)
		if brokenAnswer != "" {
			r.Stats["runs_failed_on_broken_transform_answer"]++
		} else {
			r.Stats["runs_killed_in_transform"]++
		}
	} else if prop == "C10" {
		if v := r.checkTransformDelivery(id, jobType, cfg, lastErr); v != nil {
			return v
		}
	}
	if lastErr == "" {
		r.Stats["runs_ok"]++
		if vr, _ := cfg["_variant"].(string); prop == "C10" && vr != "identity" {
			// sink content is decided by the transform; delivery was checked above
		} else if v := r.checkConverged(r.H, cfg, jobType, "after-successful-run"); v != nil {
			if r.lastRunFailed {
				v.Signature = strings.Replace(v.Signature, "after-successful-run", "after-failed-then-successful-run", 1)
				v.Message = "the previous run failed or was killed; " + v.Message
			}
			return v
		}
		// re-running with nothing new changes nothing
		if op.N == 1 {
			n1 := r.sinkFeedLen(r.H, cfg)
			r.installFaults(id, map[string]any{})
			var ended bool
			var err error
			if r.Sc.Knob("viaTrigger", 0) == 1 {
				ended = r.H.RunJobByTrigger(2 * time.Hour)
			} else {
				_, ended, err = r.H.RunJobToEnd(id, jobType, 2*time.Hour)
			}
			r.clearFaults()
			if err != nil || !ended {
				return viol(prop, "job-run", "rerun-failed", "second run: %v ended=%v", err, ended)
			}
			r.Stats["job_runs"]++
			r.Stats["idempotence_checks"]++
			// a fullsync job re-reads the source's whole change history, so value flips in that history are
			// replayed into the sink feed by design; "changes nothing" is then judged on the latest view
			if vr, _ := cfg["_variant"].(string); prop == "C10" && vr != "identity" {
			} else if v := r.checkConverged(r.H, cfg, jobType, "after-rerun"); v != nil {
				return v
			}
			if n2 := r.sinkFeedLen(r.H, cfg); n2 != n1 && jobType != "fullsync" {
				return viol(prop, "convergence", "rerun-adds-changes:"+jobType, "running %s job %s again with nothing new added %d change entries to the sink", jobType, id, n2-n1)
			}
		}
		r.lastRunFailed = false
	} else {
		r.Stats["runs_failed"]++
		r.lastRunFailed = true
		_ = faulty
	}
	_ = before
	_ = srcCommits
	// crash states taken during this run: the next successful run in the restarted hub restores equality
	for _, d := range r.crashDirs {
		if v := r.verifyJobCrash(d, id, jobType, cfg); v != nil {
			return v
		}
	}
	r.crashDirs = nil
	return nil
}

func (r *JobRun) verifyJobCrash(dir, id, jobType string, cfg map[string]any) *Violation {
	prop := r.Sc.Property
	defer os.RemoveAll(dir)
	h, err := OpenJobsHub(dir, r.Sc.Knobs)
	if err != nil {
		return viol(prop, "reopen", "store-does-not-open", "after a crash inside a job run the hub does not open: %v", err)
	}
	defer h.Close()
	r.Stats["crash_states_verified"]++
	_, ended, err := h.RunJobToEnd(id, jobType, 2*time.Hour)
	if err != nil || !ended {
		return viol(prop, "job-run", "run-after-crash-failed", "after a crash inside a run, running the job again: %v ended=%v", err, ended)
	}
	res := h.LastResult(id)
	if res == nil || res["lastError"] != "" {
		return viol(prop, "job-run", "run-after-crash-failed", "after a crash inside a run the next run ended with %v", res)
	}
	if v := r.checkConverged(h, cfg, jobType, "after-crash-and-rerun"); v != nil {
		return v
	}
	return nil
}

func sha8(b []byte) []byte {
	h := sha256.Sum256(b)
	return h[:8]
}

// --- C10 -------------------------------------------------------------------------------------

// transform variants, keyed by name; the JS source is built by jsTransform.
func applyVariant(variant string, in []*CanonEnt) []string {
	var out []string
	for _, e := range in {
		switch variant {
		case "drop":
			if d, _ := e.Props[ExS+"drop"].(bool); d {
				continue
			}
			out = append(out, e.ID)
		case "duplicate":
			out = append(out, e.ID, e.ID+"-dup")
		case "create", "append":
			out = append(out, e.ID, e.ID+"-new")
		default:
			out = append(out, e.ID)
		}
	}
	return out
}

func flatten(b [][]string) []string {
	var out []string
	for _, x := range b {
		out = append(out, x...)
	}
	return out
}

func sortedCopy(l []string) []string {
	o := append([]string(nil), l...)
	sort.Strings(o)
	return o
}

// checkTransformDelivery: every source entity of the run reached the transform exactly once and
// everything the transform returned reached the sink in source order.
func (r *JobRun) checkTransformDelivery(id, jobType string, cfg map[string]any, lastErr string) *Violation {
	src := sourceNames(cfg)[0]
	if ms, ok := cfg["_src"].(string); ok {
		src = ms // the dataset the job's source stands for (a proxy dataset)
	}
	d := r.M.DS[src]
	variant, _ := cfg["_variant"].(string)
	cell := fmt.Sprintf("n=%d,batch=%v,parallelism=%v,%s,%s", len(d.Versions), cfg["batchSize"], cfg["_parallelism"], jobType, variant)
	if lastErr != "" {
		return viol("C10", "transform-delivery", "run-failed", "job run failed in cell %s: %s", cell, lastErr)
	}
	from := 0
	if jobType != "fullsync" {
		from = r.consumed[id]
	}
	var expIn []*CanonEnt
	var expIDs []string
	for _, v := range d.Versions[from:] {
		expIn = append(expIn, v.C)
		expIDs = append(expIDs, v.C.ID)
	}
	gotIn := flatten(r.toTransform)
	if (len(r.carryIn) > 0 || len(r.carryOut) > 0) && jobType != "fullsync" {
		// the run before this one was killed inside a batch: between them the two runs must have passed every source
		// entity to the transform and everything the transform returns for it to the sink (the token of the
		// killed run may not be ahead of what it delivered)
		inSet, outSet := map[string]bool{}, map[string]bool{}
		for _, x := range append(append([]string(nil), r.carryIn...), gotIn...) {
			inSet[x] = true
		}
		for _, x := range append(append([]string(nil), r.carryOut...), flatten(r.delivered)...) {
			outSet[x] = true
		}
		r.carryIn, r.carryOut = nil, nil
		for _, x := range expIDs {
			if !inSet[x] {
				return viol("C10", "transform-delivery", "delivery-mismatch:after-kill", "cell %s: the previous run was killed while a transform worker was starting; source entity %s reached the transform neither in that run nor in this one", cell, shortURI(x))
			}
		}
		for _, x := range applyVariant(variant, expIn) {
			if !outSet[x] {
				return viol("C10", "transform-delivery", "delivery-mismatch:after-kill", "cell %s: the previous run was killed while a transform worker was starting; %s, which the transform returns, reached the sink neither in that run nor in this one", cell, shortURI(x))
			}
		}
		r.consumed[id] = len(d.Versions)
		r.Stats["transform_delivery_checks_after_kill"]++
		return nil
	}
	r.carryIn, r.carryOut = nil, nil
	if strings.Join(sortedCopy(gotIn), ",") != strings.Join(sortedCopy(expIDs), ",") {
		cls := "wrong-set"
		if len(gotIn) < len(expIDs) {
			cls = "entities-not-transformed"
		} else if len(gotIn) > len(expIDs) {
			cls = "entities-transformed-twice"
		}
		_ = cls
		return viol("C10", "transform-delivery", "delivery-mismatch", "cell %s: [transform input] the source delivered %d entities %v, the transform received %d: %v", cell, len(expIDs), shortAll(expIDs), len(gotIn), shortAll(gotIn))
	}
	if r.svc != nil && cfg["_http"] == true {
		// the service's own record: it was sent every source entity once, in source order
		if sent := flatten(r.svc.got); strings.Join(sent, ",") != strings.Join(expIDs, ",") {
			return viol("C10", "transform-delivery", "delivery-mismatch", "cell %s: [service input] the source delivered %v, the transform service was sent %v", cell, shortAll(expIDs), shortAll(sent))
		}
		r.Stats["transform_service_checks"]++
	}
	expOut := applyVariant(variant, expIn)
	gotOut := flatten(r.delivered)
	if variant == "append" {
		// the created entities follow the originals of each worker's chunk: the chunking is the pipeline's
		// business, so only the multiset and the relative order of the source entities are fixed
		var origGot []string
		for _, x := range gotOut {
			if !strings.HasSuffix(x, "-new") {
				origGot = append(origGot, x)
			}
		}
		if strings.Join(sortedCopy(gotOut), ",") != strings.Join(sortedCopy(expOut), ",") || strings.Join(origGot, ",") != strings.Join(expIDs, ",") {
			cls := "wrong-set"
			if len(gotOut) < len(expOut) {
				cls = "entities-lost-after-transform"
			} else if len(gotOut) > len(expOut) {
				cls = "extra-entities"
			}
			_ = cls
			return viol("C10", "transform-delivery", "delivery-mismatch", "cell %s: [sink input] the transform returned each source entity and one created entity per source entity (%d in all), the sink received %v", cell, len(expOut), shortAll(gotOut))
		}
	} else if strings.Join(gotOut, ",") != strings.Join(expOut, ",") {
		cls := "wrong-order"
		if len(gotOut) < len(expOut) {
			cls = "entities-lost-after-transform"
		} else if len(gotOut) > len(expOut) {
			cls = "extra-entities"
		}
		_ = cls
		return viol("C10", "transform-delivery", "delivery-mismatch", "cell %s: [sink input] the transform returned %v in this order, the sink received %v", cell, shortAll(expOut), shortAll(gotOut))
	}
	if jobType != "fullsync" {
		r.consumed[id] = len(d.Versions)
	}
	r.Stats["transform_delivery_checks"]++
	return nil
}

func batchSizes(b [][]string) []int {
	out := make([]int, len(b))
	for i, x := range b {
		out[i] = len(x)
	}
	return out
}

func shortAll(l []string) []string {
	o := make([]string, len(l))
	for i, x := range l {
		o[i] = shortURI(x)
	}
	return o
}

// --- C17: per-entity error handling -------------------------------------------------------------

type runRec struct {
	start, end   time.Time
	ended        bool
	accepted     [][]string // batches the sink accepted, in order
	singleReject []string   // single-entity deliveries the sink rejected, in order
	afterStop    int        // sink calls after the handler reported "max items reached"
	attempts     int
}

type c17State struct {
	runs      []*runRec
	cur       *runRec
	fails     map[string]int // remaining failures per entity (-1 = permanent)
	reportsAt int            // index into the observed logs consumed so far
	killed    bool           // the job was killed during its first run
}

func (r *JobRun) installC17(spec map[string]any, st *c17State) {
	st.fails = map[string]int{}
	times := intOf(spec, "rejectTimes")
	if rej, ok := spec["rejectIds"].([]any); ok {
		for _, x := range rej {
			n := -1
			if times > 0 {
				n = times
			}
			st.fails[markerToFull(fmt.Sprint(x))] = n
		}
	}
	failAll := intOf(spec, "sinkFailAlways") == 1
	hooks.onPoint = nil
	hooks.onFaultOn = func(owner any, name string, subject any, hit int64) error {
		r.recMu.Lock()
		defer r.recMu.Unlock()
		switch name {
		case "job.afterBorrow":
			st.cur = &runRec{start: time.Now()}
			st.runs = append(st.runs, st.cur)
		case "job.afterResult":
			if st.cur != nil {
				st.cur.end, st.cur.ended = time.Now(), true
			}
		case "sink.dataset":
			if st.cur == nil {
				return nil
			}
			st.cur.attempts++
			ids := entIDs(r.H, subject)
			if k := intOf(spec, "killAtSink"); k > 0 && len(st.runs) == 1 && st.cur.attempts == k && !st.killed {
				// an operator kills the job while its first run is delivering
				st.killed = true
				r.Stats["fault_kill"]++
				r.recMu.Unlock()
				r.H.Full.Sched.KillJob(fmt.Sprint(r.curJob))
				r.recMu.Lock()
			}
			if failAll {
				r.Stats["fault_sink_error"]++
				return errSinkInjected
			}
			reject := false
			for _, id := range ids {
				if n, ok := st.fails[id]; ok && n != 0 {
					reject = true
					if n > 0 {
						st.fails[id] = n - 1
					}
				}
			}
			if reject {
				r.Stats["fault_sink_reject"]++
				if len(ids) == 1 {
					st.cur.singleReject = append(st.cur.singleReject, ids[0])
				}
				return fmt.Errorf("scripted sink rejects a batch of %d", len(ids))
			}
			st.cur.accepted = append(st.cur.accepted, ids)
		}
		return nil
	}
}

// handlerReports returns the entity ids the log error handler reported since the last call.
func (r *JobRun) handlerReports(st *c17State) []string {
	var out []string
	if r.H.Logs == nil {
		return nil
	}
	all := r.H.Logs.All()
	for _, e := range all[st.reportsAt:] {
		if strings.Contains(e.Message, "failed to process") {
			// "entity <curie> failed to process: ..."
			f := strings.Fields(e.Message)
			if len(f) > 1 {
				out = append(out, r.H.expand(f[1]))
			}
		}
	}
	st.reportsAt = len(all)
	return out
}

// tickOp lets the cron trigger fire once and follows the run and its re-runs to the end.
func (r *JobRun) tickOp(op *Op, i int) *Violation {
	id := op.S
	cfg := r.jobs[id]
	if cfg == nil {
		return viol("C17", "harness", "invalid", "unknown job %s", id)
	}
	spec := op.M
	if spec == nil {
		spec = map[string]any{}
	}
	ti := intOf(spec, "trigger") // which of the job's triggers fires (0 = its cron trigger)
	trig := cfg["triggers"].([]any)[ti].(map[string]any)
	jobType := fmt.Sprint(trig["jobType"])
	maxItems, maxRetries, retryDelay, hasLog, hasRerun := 0, 0, int64(0), false, false
	if l, ok := trig["onError"].([]any); ok {
		for _, x := range l {
			eh := x.(map[string]any)
			switch strings.ToLower(fmt.Sprint(eh["errorHandler"])) {
			case "log":
				hasLog = true
				maxItems = intOf(eh, "maxItems")
			case "rerun":
				hasRerun = true
				maxRetries = intOf(eh, "maxRetries")
				if maxRetries == 0 {
					maxRetries = 1
				}
				retryDelay = int64(intOf(eh, "retryDelay"))
				if retryDelay == 0 {
					retryDelay = 30
				}
			}
		}
	}
	st := &c17State{}
	if r.H.Logs != nil {
		st.reportsAt = r.H.Logs.Len()
	}
	r.curJob = id
	r.installC17(spec, st)
	defer r.clearFaults()
	if op.N >= 2 {
		// several trigger periods in a row: failures and re-runs overlap; only the retry budget is judged
		before := PointHits()["go:job.rerun"]
		horizon := time.Duration(op.N)*10*time.Minute + time.Duration(int64(maxRetries+1)*retryDelay)*time.Second + time.Minute
		for left := horizon; left > 0; left -= time.Minute {
			time.Sleep(time.Minute)
		}
		if !r.H.WaitJobsIdle(2 * time.Hour) {
			return viol("C17", "job-run", "job-hangs", "job still running after 2h of simulated time")
		}
		reruns := int(PointHits()["go:job.rerun"] - before)
		r.Stats["job_runs"] += int64(len(st.runs))
		r.Stats["multi_tick_episodes"]++
		r.ev("ticks=%d runs=%d reruns=%d", op.N, len(st.runs), reruns)
		if reruns > maxRetries {
			return viol("C17", "rerun", "too-many-reruns", "over %d trigger periods with a sink that keeps failing the job was re-run %d times by its reRun handler, maxRetries=%d (retryDelay %ds, trigger every 600s)", op.N, reruns, maxRetries, retryDelay)
		}
		if !hasRerun && reruns > 0 {
			return viol("C17", "rerun", "rerun-without-cause", "%d re-runs without a reRun handler", reruns)
		}
		return nil
	}
	// advance to just after the next trigger time: the "@every 10m" trigger fires once. The instant is read
	// from the hub's schedule: a fixed 10 minutes would drift against the cron by the time spent waiting for
	// re-runs and let a later tick see two trigger runs
	if boolOf(spec, "event") {
		// the job's onchange trigger: the event the HTTP handler emits after a stored batch
		time.Sleep(time.Second)
		r.H.Full.Bus.Emit(context.Background(), "dataset."+fmt.Sprint(trig["monitoredDataset"]), nil)
		r.Stats["event_trigger_runs"]++
	} else {
		fire := time.Now().Add(10 * time.Minute)
		for _, e := range r.H.Full.Sched.GetScheduleEntries().Entries {
			// (this profile schedules one job; the listing's job ids are unreliable: it maps entries by slice index)
			if e.Next.After(time.Now()) && e.Next.Before(fire.Add(time.Second)) {
				fire = e.Next
			}
		}
		time.Sleep(time.Until(fire) + time.Second)
	}
	if !r.H.WaitJobsIdle(2 * time.Hour) {
		return viol("C17", "job-run", "job-hangs", "job still running after 2h of simulated time")
	}
	// give re-runs time to happen (they are timers on the fake clock); stay below the next cron tick
	wait := time.Duration(int64(maxRetries+2)*retryDelay) * time.Second
	if wait > 8*time.Minute {
		wait = 8 * time.Minute
	}
	time.Sleep(wait)
	if !r.H.WaitJobsIdle(2 * time.Hour) {
		return viol("C17", "job-run", "job-hangs", "job still running after 2h of simulated time")
	}
	if len(st.runs) == 0 {
		return viol("C17", "job-run", "cron-did-not-fire", "no run started within 10 minutes although the trigger is @every 10m")
	}
	r.Stats["job_runs"] += int64(len(st.runs))
	src := sourceNames(cfg)[0]
	d := r.M.DS[src]
	first := st.runs[0]
	// what the first run was given
	from := 0
	if jobType != "fullsync" {
		from = r.consumed[id]
	}
	var given []string
	for _, v := range d.Versions[from:] {
		given = append(given, v.C.ID)
	}
	reports := r.handlerReports(st)
	cell := fmt.Sprintf("n=%d batch=%v maxItems=%d rejected=%v times=%d %s", len(given), cfg["batchSize"], maxItems, shortAll(keysOfInt(st.fails)), intOf(spec, "rejectTimes"), jobType)
	r.ev("tick cell[%s] runs=%d rejects=%v reports=%d", cell, len(st.runs), shortAll(first.singleReject), len(reports))
	if st.killed {
		// a killed run (like a successful one) is not run again by the reRun handler, whatever its budget
		r.Stats["kill_with_rerun_handler_checks"]++
		if n := len(st.runs) - 1; n > 0 {
			return viol("C17", "rerun", "rerun-after-kill", "cell %s: the job was killed during its first run (rejected before the kill: %v); the reRun handler (maxRetries=%d, delay %ds) ran it again %d time(s)", cell, shortAll(first.singleReject), maxRetries, retryDelay, n)
		}
		if jobType != "fullsync" {
			r.consumed[id] = len(d.Versions)
		}
		return nil
	}
	if hasLog && intOf(spec, "sinkFailAlways") == 0 {
		// (a) every single-entity rejection is reported exactly once, nothing else is reported
		var allRej []string
		for _, rn := range st.runs {
			allRej = append(allRej, rn.singleReject...)
		}
		if strings.Join(reports, ",") != strings.Join(allRej, ",") {
			cls := "wrong-reports"
			if len(reports) < len(allRej) {
				cls = "rejection-not-reported"
			} else if len(reports) > len(allRej) {
				cls = "reported-more-than-once"
			}
			return viol("C17", "error-handling", "reports:"+cls, "cell %s: the sink rejected %v as single entities, the log handler reported %v", cell, shortAll(allRej), shortAll(reports))
		}
		// (b) the stop rule
		stopped := maxItems > 0 && len(first.singleReject) >= maxItems
		if maxItems > 0 && len(first.singleReject) > maxItems {
			return viol("C17", "error-handling", "not-stopped-at-max-items", "cell %s: maxItems=%d but the run went on to %d rejected entities", cell, maxItems, len(first.singleReject))
		}
		acc := map[string]bool{}
		for _, b := range first.accepted {
			for _, x := range b {
				acc[x] = true
			}
		}
		rej := map[string]bool{}
		for _, x := range first.singleReject {
			rej[x] = true
		}
		stopAt := len(given)
		if stopped {
			last := first.singleReject[len(first.singleReject)-1]
			for k, x := range given {
				if x == last {
					stopAt = k
					break
				}
			}
		}
		// (c') an id the run meets more than once (the source corrected it): every occurrence before the stop that
		// was not rejected was delivered
		occ, accN, rejN := map[string]int{}, map[string]int{}, map[string]int{}
		for k, x := range given {
			if k < stopAt || (k == stopAt && !stopped) {
				occ[x]++
			}
		}
		for _, b := range first.accepted {
			for _, x := range b {
				accN[x]++
			}
		}
		for _, x := range first.singleReject {
			rejN[x]++
		}
		for _, x := range sortedKeys(occ) {
			if occ[x] > 1 && accN[x] < occ[x]-rejN[x] {
				return viol("C17", "error-handling", "good-entity-not-delivered", "cell %s: the run met %s %d times before its end, the sink rejected it %d time(s) and was handed it %d time(s): an acceptable version was never delivered (accepted batches %v)", cell, shortURI(x), occ[x], rejN[x], accN[x], first.accepted)
			}
		}
		// (c) every other entity before the stop was delivered, none after it
		for k, x := range given {
			if k < stopAt && !rej[x] && !acc[x] {
				return viol("C17", "error-handling", "good-entity-not-delivered", "cell %s: %s was neither rejected nor delivered to the sink (accepted batches %v)", cell, shortURI(x), first.accepted)
			}
			if stopped && k > stopAt && acc[x] {
				return viol("C17", "error-handling", "delivered-after-stop", "cell %s: %s was delivered although the run had to stop at %s", cell, shortURI(x), shortURI(given[stopAt]))
			}
		}
		// (d) the recorded outcome carries the error
		res := r.H.LastResult(id)
		lastErr := ""
		if res != nil {
			lastErr, _ = res["lastError"].(string)
		}
		lastRun := st.runs[len(st.runs)-1]
		if len(lastRun.singleReject) > 0 && lastErr == "" {
			return viol("C17", "error-handling", "outcome-without-error", "cell %s: entities were rejected but the recorded outcome has no error: %v", cell, res)
		}
		if len(lastRun.singleReject) > 0 && !strings.Contains(lastErr, "scripted sink rejects") {
			// "carries the error": the error the sink gave for a rejected entity, not only a note that the run stopped
			return viol("C17", "error-handling", "outcome-without-the-sink-error", "cell %s: the sink rejected %v with \"scripted sink rejects ...\"; the recorded outcome says %q", cell, shortAll(lastRun.singleReject), lastErr)
		}
		if len(first.singleReject) == 0 && len(st.runs) == 1 && lastErr != "" {
			sig := "outcome-error-without-rejection"
			if first.attempts == 0 {
				// the run found nothing to deliver and never called the sink: the error is the one an earlier run met
				sig += ":nothing-to-deliver"
			}
			v := viol("C17", "error-handling", sig, "cell %s: nothing was rejected for good but the outcome says %q", cell, lastErr)
			if !IsKnown(v) {
				return v
			}
			r.Stats["known:"+v.Oracle+"|"+v.Signature]++
		}
		// (e) accepted entities are in the sink
		inSink := map[string]bool{}
		if sink := r.H.Dataset(sinkName(cfg)); sink != nil {
			if res, err := sink.GetEntities("", 0); err == nil {
				for _, e := range res.Entities {
					inSink[r.H.expand(e.ID)] = true
				}
			}
		}
		for x := range acc {
			if !inSink[x] {
				return viol("C17", "error-handling", "accepted-entity-not-in-sink", "cell %s: %s was accepted by the sink but is not in it", cell, shortURI(x))
			}
		}
		r.Stats["error_handling_checks"]++
	}
	// re-run rule
	failedFirst := false
	if res := r.H.LastResult(id); res != nil || len(st.runs) > 0 {
		failedFirst = len(first.singleReject) > 0 || intOf(spec, "sinkFailAlways") == 1
	}
	reruns := len(st.runs) - 1
	if !hasRerun || !failedFirst {
		if reruns > 0 {
			sig := "rerun-without-cause"
			quiet := true
			for _, rn := range st.runs {
				if rn.attempts > 0 {
					quiet = false
				}
			}
			if quiet {
				sig += ":nothing-to-deliver"
			}
			v := viol("C17", "rerun", sig, "cell %s: %d re-run(s) although hasRerun=%v failed=%v", cell, reruns, hasRerun, failedFirst)
			if !IsKnown(v) {
				return v
			}
			r.Stats["known:"+v.Oracle+"|"+v.Signature]++
		}
	} else {
		if reruns > maxRetries {
			return viol("C17", "rerun", "too-many-reruns", "cell %s: %d re-runs, maxRetries=%d", cell, reruns, maxRetries)
		}
		for k := 1; k < len(st.runs); k++ {
			gap := st.runs[k].start.Sub(st.runs[k-1].end)
			if gap != time.Duration(retryDelay)*time.Second {
				return viol("C17", "rerun", "wrong-delay", "cell %s: re-run %d started %v after the failed run ended, configured delay %ds", cell, k, gap, retryDelay)
			}
		}
		// a failed run with retries left must be re-run
		lastFailed := len(st.runs[len(st.runs)-1].singleReject) > 0 || intOf(spec, "sinkFailAlways") == 1
		if lastFailed && reruns < maxRetries {
			return viol("C17", "rerun", "missing-rerun", "cell %s: the last of %d run(s) failed and %d of %d retries were used, but no re-run followed", cell, len(st.runs), reruns, maxRetries)
		}
		r.Stats["rerun_checks"]++
	}
	if jobType != "fullsync" {
		r.consumed[id] = len(d.Versions)
	}
	return nil
}

func keysOfInt(m map[string]int) []string {
	var l []string
	for k := range m {
		l = append(l, k)
	}
	sort.Strings(l)
	return l
}

// --- C18: MultiSource dependency tracking --------------------------------------------------------

type c18Join struct {
	DS      string
	Pred    string
	Inverse bool
}

func parseDeps(cfg map[string]any) (main string, deps map[string][][]c18Join) {
	src, _ := cfg["source"].(map[string]any)
	main = fmt.Sprint(src["Name"])
	deps = map[string][][]c18Join{}
	l, _ := src["Dependencies"].([]any)
	if l == nil {
		l, _ = src["_Dependencies"].([]any)
	}
	for _, x := range l {
		m := x.(map[string]any)
		var joins []c18Join
		for _, j := range m["joins"].([]any) {
			jm := j.(map[string]any)
			inv, _ := jm["inverse"].(bool)
			joins = append(joins, c18Join{DS: fmt.Sprint(jm["dataset"]), Pred: markerToFull(fmt.Sprint(jm["_pred"])), Inverse: inv})
		}
		ds := fmt.Sprint(m["dataset"])
		deps[ds] = append(deps[ds], joins)
		// the datasets a path passes through are dependencies too (the hub tracks them without being told): a change
		// there reaches the main entities through the rest of the path
		for i := 0; i+1 < len(joins); i++ {
			mid := joins[i].DS
			if mid == main {
				continue
			}
			rest := joins[i+1:]
			dup := false
			for _, have := range deps[mid] {
				if fmt.Sprint(have) == fmt.Sprint(rest) {
					dup = true
				}
			}
			if !dup {
				deps[mid] = append(deps[mid], rest)
			}
		}
	}
	return
}

// reach follows a join path from a start entity over the graph of a model.
func reach(m *Model, startDS string, start string, joins []c18Join) map[string]bool {
	cur := map[string]bool{start: true}
	prev := startDS
	for _, j := range joins {
		next := map[string]bool{}
		scope := []string{prev, j.DS}
		for s := range cur {
			var rel map[relPair]bool
			if j.Inverse {
				rel = m.In(s, j.Pred, scope)
			} else {
				rel = m.Out(s, j.Pred, scope)
			}
			for p := range rel {
				next[p[1]] = true
			}
		}
		cur = next
		prev = j.DS
	}
	return cur
}

type c18Track struct {
	changed   map[string]map[string]bool // dataset -> ids written since the last fixpoint
	prev      *Model                     // model at the last fixpoint
	tokens    map[string]uint64          // dependency tokens at the last look
	commits   map[string][][]string      // dataset -> ids written by each commit since the last fixpoint
	// a run of the job that took place while a client's write was in flight (between its first store step and its
	// commit): what that run delivered, and the dataset and ids of the write
	carry      map[string]bool
	inflightDS string
	inflight   []string
}

// runFixOp runs the job until its continuation token stops changing and checks what was emitted.
func (r *JobRun) runFixOp(op *Op, i int) *Violation {
	id := op.S
	cfg := r.jobs[id]
	if cfg == nil {
		return viol("C18", "harness", "invalid", "unknown job %s", id)
	}
	if r.c18 == nil {
		r.c18 = &c18Track{changed: map[string]map[string]bool{}, prev: NewModel(), tokens: map[string]uint64{}}
	}
	main, deps := parseDeps(cfg)
	spec := op.M
	if spec == nil {
		spec = map[string]any{}
	}
	emitted := map[string]bool{}
	emittedAfter := map[string]bool{} // delivered after the client write that happened in the middle of a run
	midRound := -1
	r.midSeen = false
	lastTok := ""
	firstEver := false
	if st, _ := r.H.Full.Sched.GetJobState(id); st == nil || st.ContinuationToken == "" {
		firstEver = true
	}
	for round := 0; round < 80; round++ { // a run consumes one page of changes per dependency
		runSpec := map[string]any{}
		if round == 0 {
			runSpec = spec
		}
		r.installFaults(id, runSpec)
		var ended bool
		var err error
		if op.N == 1 {
			// the job's cron trigger fires: all runs of the history go through the one pipeline (and source object) the
			// scheduler built when the job was defined
			ended = r.H.RunJobByTrigger(2 * time.Hour)
			r.Stats["runs_by_trigger"]++
		} else {
			_, ended, err = r.H.RunJobToEnd(id, "incremental", 2*time.Hour)
		}
		r.clearFaults()
		if err != nil || !ended {
			return viol("C18", "job-run", "run-failed", "run %d: %v ended=%v", round, err, ended)
		}
		if r.midErr != nil {
			return r.midErr
		}
		r.Stats["job_runs"]++
		if r.midSeen && midRound < 0 {
			midRound = round
		}
		for bi, b := range r.delivered {
			for _, x := range b {
				emitted[x] = true
				if r.midSeen && (round > midRound || bi > r.midIdx) {
					emittedAfter[x] = true
				}
			}
		}
		res := r.H.LastResult(id)
		lastErr, _ := res["lastError"].(string)
		if lastErr != "" && len(runSpec) == 0 {
			return viol("C18", "job-run", "run-failed", "fault-free run %d failed: %s", round, lastErr)
		}
		st, err := r.H.Full.Sched.GetJobState(id)
		if err != nil || st == nil {
			return viol("C18", "job-run", "no-state", "no job state: %v", err)
		}
		// dependency tokens only move forward
		var tok struct {
			MainToken        string
			DependencyTokens map[string]struct{ Token string }
		}
		if st.ContinuationToken != "" {
			if err := json.Unmarshal([]byte(st.ContinuationToken), &tok); err != nil {
				return viol("C18", "tokens", "unreadable-token", "token %q: %v", st.ContinuationToken, err)
			}
			for ds, t := range tok.DependencyTokens {
				n, _ := strconv.ParseUint(t.Token, 10, 64)
				if n < r.c18.tokens[ds] {
					return viol("C18", "tokens", "dependency-token-went-back", "token of dependency %s went from %d to %d", ds, r.c18.tokens[ds], n)
				}
				r.c18.tokens[ds] = n
			}
		}
		r.ev("round %d err=%q token=%s", round, lastErr, st.ContinuationToken)
		if lastErr == "" && st.ContinuationToken == lastTok {
			break
		}
		lastTok = st.ContinuationToken
		if round == 79 {
			return viol("C18", "job-run", "no-fixpoint", "continuation tokens still change after 80 runs")
		}
	}
	emittedFix := map[string]bool{}
	for x := range emitted {
		emittedFix[x] = true
	}
	for x := range r.c18.carry {
		emitted[x] = true
	}
	r.ev("runFix emitted=%d", len(emitted))
	// emitted entities come from the main dataset
	mainIDs := map[string]bool{}
	if d := r.M.DS[main]; d != nil {
		for id := range d.Latest {
			mainIDs[id] = true
		}
	}
	for x := range emitted {
		if !mainIDs[x] {
			return viol("C18", "dependency-tracking", "emitted-foreign-entity", "the job emitted %s which is not an entity of the main dataset %s", shortURI(x), main)
		}
	}
	// expected: changed main entities + live main entities connected to changed dependency entities (a main
	// entity whose latest version is deleted has nothing to re-emit; it is emitted when it changes itself)
	liveMain := map[string]bool{}
	if d := r.M.DS[main]; d != nil {
		for id := range d.Latest {
			if !d.LatestOf(id).Deleted {
				liveMain[id] = true
			}
		}
	}
	want := map[string]string{}
	if firstEver {
		for x := range mainIDs {
			want[x] = "first run emits every main entity"
		}
	}
	for x := range r.c18.changed[main] {
		want[x] = "changed itself"
	}
	for ds, paths := range deps {
		for x := range r.c18.changed[ds] {
			for _, joins := range paths {
				for y := range reach(r.M, ds, x, joins) {
					if liveMain[y] {
						want[y] = fmt.Sprintf("connected to changed %s entity %s", ds, shortURI(x))
					}
				}
				if len(joins) > 0 && !joins[0].Inverse && !firstEver {
					// a removed first-hop outgoing link counts as it stood at the previous catch-up
					first := reach(r.c18.prev, ds, x, joins[:1])
					for mid := range first {
						for y := range reach(r.M, joins[0].DS, mid, joins[1:]) {
							if liveMain[y] {
								want[y] = fmt.Sprintf("was connected to changed %s entity %s through a first-hop link that has been removed", ds, shortURI(x))
							}
						}
					}
				}
			}
		}
	}
	for _, y := range sortedKeys(want) {
		if !emitted[y] {
			cls := "changed-main-entity-not-emitted"
			if strings.HasPrefix(want[y], "connected") {
				cls = "dependent-main-entity-not-emitted"
			} else if strings.HasPrefix(want[y], "was connected") {
				cls = "previously-linked-main-entity-not-emitted"
				// (label of the former finding KF-C18-1, repaired) the look back in time used the stamp of the change preceding the current page; when a
				// page of changes can start inside the commit that removed the link (the commit wrote other
				// changes before it and the dependency has more pending changes than one page holds), that change
				// belongs to the same commit, so the link is already gone at that instant
				if i1, i2 := strings.Index(want[y], " entity "), strings.Index(want[y], " through"); i1 > 0 && i2 > i1 {
					x := want[y][i1+8 : i2]
					ds := strings.TrimPrefix(want[y][:i1], "was connected to changed ")
					total, inside := 0, false
					for _, c := range r.c18.commits[ds] {
						total += len(c)
						for k, id := range c {
							if k > 0 && shortURI(id) == x {
								inside = true
							}
						}
					}
					if bs := intOf(cfg, "batchSize"); bs > 0 && inside && total > bs {
						cls += ":page-starts-inside-commit"
					}
				}
			} else if strings.HasPrefix(want[y], "first run") {
				cls = "first-run-incomplete"
			}
			return viol("C18", "dependency-tracking", cls, "main entity %s (%s) was not emitted by the runs up to the fixpoint; emitted: %v", shortURI(y), want[y], shortAll(sortedKeys(emitted)))
		}
	}
	// what a client wrote in the middle of a run has to be delivered after that write: a main entity that went out
	// before it (an earlier page of the same run) has to go out again
	if mw, ok := spec["midWrite"].(map[string]any); ok && r.midSeen {
		mds := fmt.Sprint(mw["ds"])
		for _, e := range entsOf(mw["ents"]) {
			x := CanonSpec(e).ID
			need := map[string]string{}
			if mds == main {
				need[x] = "was written by a client during the run"
			}
			for _, joins := range deps[mds] {
				for y := range reach(r.M, mds, x, joins) {
					if liveMain[y] {
						need[y] = fmt.Sprintf("is connected to %s entity %s, which a client wrote during the run", mds, shortURI(x))
					}
				}
			}
			for _, y := range sortedKeys(need) {
				if !emittedAfter[y] {
					return viol("C18", "dependency-tracking", "not-emitted-after-mid-run-write", "main entity %s %s, but no delivery after that write contains it; delivered after the write: %v", shortURI(y), need[y], shortAll(sortedKeys(emittedAfter)))
				}
			}
		}
		r.Stats["mid_run_write_checks"]++
	}
	if r.c18.inflight != nil {
		// the run that took place inside the write cannot have seen it: what the write affects has to go out in the
		// runs after its commit
		mds := r.c18.inflightDS
		for _, x := range r.c18.inflight {
			need := map[string]string{}
			if mds == main && liveMain[x] {
				need[x] = "was written by a client while a run was under way"
			}
			for _, joins := range deps[mds] {
				for y := range reach(r.M, mds, x, joins) {
					if liveMain[y] {
						need[y] = fmt.Sprintf("is connected to %s entity %s, whose write was in flight when a run of the job started and ended", mds, shortURI(x))
					}
				}
			}
			for _, y := range sortedKeys(need) {
				if !emittedFix[y] {
					return viol("C18", "dependency-tracking", "not-emitted-after-in-flight-write", "main entity %s %s, but no run after the commit of that write delivered it; delivered after it: %v", shortURI(y), need[y], shortAll(sortedKeys(emittedFix)))
				}
			}
		}
		r.Stats["in_flight_write_checks"]++
	}
	r.c18.carry, r.c18.inflight, r.c18.inflightDS = nil, nil, ""
	r.Stats["dependency_checks"]++
	r.Stats["expected_emissions"] += int64(len(want))
	r.c18.changed = map[string]map[string]bool{}
	r.c18.commits = map[string][][]string{}
	r.c18.prev = r.M.Clone()
	return nil
}
