package verifsim

import (
	"bytes"
	"encoding/json"
	"errors"
	"fmt"
	"io"
	"net/http"
	"strconv"
	"strings"
	"sync"
	"time"

	"github.com/mimiro-io/datahub/internal/server"
)

// c10Service is the transform service of profile C10's HttpTransform jobs: it sits behind the HTTP transport the
// hub's client uses, records what it was sent, answers the way the JavaScript variants do, and breaks its
// answers off where the scenario says (a service that dies between two entities, a gateway that cuts the
// body, a 5xx, a connection failure, an answer slower than the configured timeout).
type c10Service struct {
	r     *JobRun
	mu    sync.Mutex
	reqs  int        // requests of the run in progress
	got   [][]string // ids (expanded) per request of the run in progress
	fault map[string]any
	fired string // kind of the fault that was applied in this run
}

func (s *c10Service) reset(spec map[string]any) {
	s.mu.Lock()
	defer s.mu.Unlock()
	s.reqs, s.got, s.fired = 0, nil, ""
	s.fault, _ = spec["httpFault"].(map[string]any)
}

// errReader gives its bytes and then fails like a connection that is reset.
type errReader struct {
	b *bytes.Reader
}

func (e *errReader) Read(p []byte) (int, error) {
	n, err := e.b.Read(p)
	if err == io.EOF {
		return n, errors.New("simulated: connection reset by peer")
	}
	return n, err
}

func (s *c10Service) RoundTrip(req *http.Request) (*http.Response, error) {
	var body []byte
	if req.Body != nil {
		body, _ = io.ReadAll(req.Body)
		_ = req.Body.Close()
	}
	mk := func(code int, rd io.Reader, n int) *http.Response {
		return &http.Response{StatusCode: code, Status: fmt.Sprintf("%d", code), Proto: "HTTP/1.1", ProtoMajor: 1, ProtoMinor: 1,
			Header: http.Header{"Content-Type": []string{"application/json"}}, Body: io.NopCloser(rd), Request: req, ContentLength: int64(n)}
	}
	if req.Method == http.MethodGet && strings.HasSuffix(req.URL.Path, "/changes") {
		// the remote behind a proxy dataset: it serves the change feed of the hub's own dataset srcA and, as the
		// protocol allows, pays no attention to the limit it is asked for
		ds := s.r.H.Dataset("srcA")
		if ds == nil {
			return mk(404, bytes.NewReader(nil), 0), nil
		}
		since, _ := strconv.ParseUint(req.URL.Query().Get("since"), 10, 64)
		res, err := ds.GetChanges(since, 0, false)
		if err != nil {
			return mk(500, strings.NewReader(err.Error()), len(err.Error())), nil
		}
		cb, _ := json.Marshal(s.r.H.Store.NamespaceManager.GetContext(nil))
		elems := []string{string(cb)}
		for _, e := range res.Entities {
			b, _ := json.Marshal(e)
			elems = append(elems, string(b))
		}
		elems = append(elems, fmt.Sprintf(`{"id":"@continuation","token":"%d"}`, res.NextToken))
		body := "[" + strings.Join(elems, ",") + "]"
		s.mu.Lock()
		s.r.Stats["proxy_remote_reads"]++
		s.mu.Unlock()
		return mk(200, strings.NewReader(body), len(body)), nil
	}
	if !strings.Contains(req.URL.Path, "transform") {
		return mk(404, bytes.NewReader(nil), 0), nil
	}
	var raw []json.RawMessage
	if err := json.Unmarshal(body, &raw); err != nil {
		return mk(400, bytes.NewReader([]byte(err.Error())), len(err.Error())), nil
	}
	var ctxElem json.RawMessage
	var ents []*server.Entity
	for i, x := range raw {
		var probe struct {
			ID string `json:"id"`
		}
		_ = json.Unmarshal(x, &probe)
		if i == 0 && probe.ID == "@context" {
			ctxElem = x
			continue
		}
		e := &server.Entity{}
		if err := json.Unmarshal(x, e); err != nil {
			return mk(400, bytes.NewReader([]byte(err.Error())), len(err.Error())), nil
		}
		ents = append(ents, e)
	}
	s.mu.Lock()
	s.reqs++
	n := s.reqs
	s.got = append(s.got, entIDs(s.r.H, ents))
	kind := ""
	if s.fault != nil && intOf(s.fault, "at") == n {
		kind, _ = s.fault["kind"].(string)
		s.fired = kind
	}
	s.r.Stats["transform_service_requests"]++
	if ctxElem != nil {
		s.r.Stats["transform_service_requests_with_context"]++
	}
	s.mu.Unlock()

	var elems []string
	if ctxElem != nil {
		elems = append(elems, string(ctxElem))
	}
	first := len(elems)
	add := func(e *server.Entity) {
		b, _ := json.Marshal(e)
		elems = append(elems, string(b))
	}
	for _, e := range ents {
		switch req.URL.Query().Get("v") {
		case "drop":
			drop := false
			for k, v := range e.Properties {
				if strings.HasSuffix(k, ":drop") && v == true {
					drop = true
				}
			}
			if !drop {
				add(e)
			}
		case "duplicate":
			add(e)
			d := &server.Entity{ID: e.ID + "-dup", Properties: e.Properties, References: e.References, IsDeleted: e.IsDeleted}
			add(d)
		case "create":
			add(e)
			add(&server.Entity{ID: e.ID + "-new", Properties: map[string]any{}, References: map[string]any{}})
		default:
			add(e)
		}
	}
	full := "[" + strings.Join(elems, ",") + "]"
	if kind != "" {
		s.r.Stats["fault_transform_answer_"+kind]++
	}
	switch kind {
	case "connErr":
		return nil, errors.New("simulated connection failure")
	case "status":
		msg := `{"message":"simulated failure"}`
		return mk(502, strings.NewReader(msg), len(msg)), nil
	case "slow":
		// the answer takes longer than the job's TimeOut allows
		select {
		case <-time.After(5 * time.Second):
		case <-req.Context().Done():
			return nil, req.Context().Err()
		}
	case "empty":
		return mk(200, bytes.NewReader(nil), 0), nil
	case "cutBoundary", "cutBoundaryErr", "cutAfterComma", "cutMid":
		// the body stops after some of the entities
		keep := len(elems) - 1
		if keep < first+1 {
			keep = len(elems)
		} else if keep > first+1 {
			keep = first + 1 + (n+len(elems))%(keep-first)
		}
		part := "[" + strings.Join(elems[:keep], ",")
		switch kind {
		case "cutAfterComma":
			part += ","
		case "cutMid":
			if keep > 0 {
				part = part[:len(part)-len(elems[keep-1])/2]
			}
		}
		if kind == "cutBoundaryErr" {
			return mk(200, &errReader{bytes.NewReader([]byte(part))}, len(full)), nil
		}
		return mk(200, strings.NewReader(part), -1), nil
	}
	return mk(200, strings.NewReader(full), len(full)), nil
}
