package verifsim

import (
	"fmt"
	"sort"
	"strings"

	"github.com/mimiro-io/datahub/internal/server"
)

// C19: dataset list, core.Dataset meta-entities and the datasets themselves agree.

type dsSettings struct {
	Proxy   string
	Virtual string
	Public  []string
}

func settingsFromOp(op *Op) dsSettings {
	var s dsSettings
	if op.M == nil {
		return s
	}
	if v, ok := op.M["proxy"].(string); ok {
		s.Proxy = v
	}
	if v, ok := op.M["virtual"].(string); ok {
		s.Virtual = v
	}
	if l, ok := op.M["publicNamespaces"].([]any); ok {
		for _, x := range l {
			if sx, ok := x.(string); ok {
				s.Public = append(s.Public, sx)
			}
		}
	}
	return s
}

func (s dsSettings) config() *server.CreateDatasetConfig {
	if s.Proxy == "" && s.Virtual == "" && len(s.Public) == 0 {
		return nil
	}
	c := &server.CreateDatasetConfig{PublicNamespaces: s.Public}
	if s.Proxy != "" {
		c.ProxyDatasetConfig = &server.ProxyDatasetConfig{RemoteURL: s.Proxy}
	}
	if s.Virtual != "" {
		c.VirtualDatasetConfig = &server.VirtualDatasetConfig{Transform: s.Virtual}
	}
	return c
}

func localName(id string) string {
	if i := strings.Index(id, ":"); i >= 0 {
		return id[i+1:]
	}
	return id
}

// CheckCatalogue verifies the agreement at a quiescent point. settings gives the configuration
// each existing dataset was created with (nil: settings are not compared).
func CheckCatalogue(h *Hub, settings map[string]dsSettings) *Violation {
	v, _ := checkCatalogue(h, settings)
	return v
}

// checkCatalogue also returns the name of the dataset the disagreement is about.
func checkCatalogue(h *Hub, settings map[string]dsSettings) (*Violation, string) {
	names := h.Store.VerifDatasetNames()
	sort.Strings(names)
	exists := map[string]bool{}
	for _, n := range names {
		exists[n] = true
	}
	// the list the API hands out (GET /datasets) against the datasets that exist
	var listed []string
	for _, dn := range h.Dsm.GetDatasetNames() {
		listed = append(listed, dn.Name)
	}
	sort.Strings(listed)
	if strings.Join(listed, ",") != strings.Join(names, ",") {
		return viol("C19", "catalogue", "dataset-list-differs-from-datasets", "the dataset list is %v, the datasets that exist are %v", listed, names), ""
	}
	core := h.Dataset("core.Dataset")
	if core == nil {
		return viol("C19", "catalogue", "core-missing", "core.Dataset does not exist"), ""
	}
	res, err := core.GetEntities("", 0)
	if err != nil {
		return viol("C19", "catalogue", "core-error", "listing core.Dataset: %v", err), ""
	}
	info, err := h.Store.NamespaceManager.GetDatasetNamespaceInfo()
	if err != nil {
		return viol("C19", "catalogue", "core-error", "%v", err), ""
	}
	live := map[string]*server.Entity{}
	for _, e := range res.Entities {
		if !strings.HasPrefix(e.ID, info.DatasetPrefix+":") {
			continue
		}
		n := localName(e.ID)
		if e.IsDeleted {
			continue
		}
		if _, dup := live[n]; dup {
			return viol("C19", "catalogue", "two-live-meta-entities", "dataset %s has two live meta-entities", n), n
		}
		live[n] = e
	}
	for n := range live {
		if !exists[n] {
			return viol("C19", "catalogue", "live-meta-entity-of-missing-dataset", "core.Dataset has a live meta-entity for %q but no such dataset exists (datasets: %v)", n, names), n
		}
	}
	for _, n := range names {
		e := live[n]
		if e == nil {
			return viol("C19", "catalogue", "dataset-without-live-meta-entity", "dataset %q exists but has no live meta-entity in core.Dataset", n), n
		}
		if nm, _ := e.Properties[info.NameKey].(string); nm != n {
			return viol("C19", "catalogue", "meta-entity-name", "meta-entity of %q carries name %v", n, e.Properties[info.NameKey]), n
		}
		if n == "core.Dataset" {
			continue // its own counter is not maintained by design (updateDataset special-cases it)
		}
		ds := h.Dataset(n)
		ch, err := ds.GetChanges(0, 0, false)
		if err != nil {
			return viol("C19", "catalogue", "feed-error", "feed of %s: %v", n, err), n
		}
		distinct := map[string]bool{}
		for _, c := range ch.Entities {
			distinct[c.ID] = true
		}
		items, _ := e.Properties[info.ItemsKey].(float64)
		if int(items) != len(distinct) {
			return viol("C19", "catalogue", "items-counter", "meta-entity of %q says items=%v, the dataset's own feed has %d distinct entity ids", n, e.Properties[info.ItemsKey], len(distinct)), n
		}
		if settings != nil {
			st, ok := settings[n]
			if !ok {
				continue
			}
			prefix := info.DatasetPrefix
			gotProxy, _ := e.Properties[prefix+":remoteUrl"].(string)
			gotVirtual, _ := e.Properties[prefix+":transform"].(string)
			var gotPublic []string
			if l, ok := e.Properties[prefix+":publicNamespaces"].([]any); ok {
				for _, x := range l {
					gotPublic = append(gotPublic, fmt.Sprint(x))
				}
			}
			if gotProxy != st.Proxy || gotVirtual != st.Virtual || strings.Join(gotPublic, ",") != strings.Join(st.Public, ",") {
				return viol("C19", "catalogue", "settings", "meta-entity of %q has proxy=%q virtual=%q publicNamespaces=%v, the dataset was created with %+v", n, gotProxy, gotVirtual, gotPublic, st), n
			}
			if (ds.ProxyConfig != nil && ds.ProxyConfig.RemoteURL != st.Proxy) || (ds.ProxyConfig == nil && st.Proxy != "") ||
				(ds.VirtualDatasetConfig != nil && ds.VirtualDatasetConfig.Transform != st.Virtual) || (ds.VirtualDatasetConfig == nil && st.Virtual != "") ||
				strings.Join(ds.PublicNamespaces, ",") != strings.Join(st.Public, ",") {
				return viol("C19", "catalogue", "dataset-settings", "dataset %q has proxy=%v virtual=%v publicNamespaces=%v, created with %+v", n, ds.ProxyConfig, ds.VirtualDatasetConfig, ds.PublicNamespaces, st), n
			}
		}
	}
	return nil, ""
}
