package verifsim

import (
	"sort"
	"net/url"
	"bytes"
	"github.com/mimiro-io/datahub/internal/server"
	"encoding/json"
	"fmt"
	"net/http"
	"os"
	"strings"
	"time"

	jobsource "github.com/mimiro-io/datahub/internal/jobs/source"
)

// C15 (delivery-fault part): what is POSTed is what is GET back, between two hub instances over
// the simulated transport; malformed deliveries are rejected, never fatal, and store nothing
// built from the malformed element.

type C15Run struct {
	Sc    *Scenario
	A, B  *Hub
	MA    *Model // what hub A must contain
	MB    *Model // what hub B must contain
	T     *SimTransport
	Stats map[string]int64
	trace []byte
	Pool  []string
	dirs  []string
	pushRepeats bool // a push delivery has been repeated: the pushed feed may hold repeats
}

func (r *C15Run) ev(format string, args ...any) {
	r.trace = append(r.trace, fmt.Sprintf(format, args...)+"\n"...)
}

// c15Context is the context of a generated payload. The prefix names overlap as strings ("t", "t1", "t12")
// and map to different expansions, as the prefixes ns1, ns12 ... of a hub with many namespaces do; one starts
// with "http" without being a URL scheme; and consecutive payloads swap the meaning of the names, so that
// nothing learnt from one payload's context may be applied to the next.
func c15Context(seed int) (ns map[string]any, ePrefixes, sPrefixes []string) {
	if seed%2 == 0 {
		return map[string]any{"_": ExE, "t": ExE, "t12": ExE, "httpd": ExE, "t1": ExS, "s": ExS}, []string{"", "t:", "t12:", "httpd:"}, []string{"s:", "t1:"}
	}
	return map[string]any{"_": ExE, "s": ExE, "t1": ExE, "t": ExS, "t12": ExS, "httpd": ExS}, []string{"", "s:", "t1:"}, []string{"t:", "t12:", "httpd:"}
}

// styled serialises identifiers in several ways: default prefix, declared prefixes, absolute URI.
func styled(seed int) func(string) string {
	_, eP, sP := c15Context(seed)
	return func(s string) string {
		h := int(hashStr(s)%7) + seed
		switch {
		case strings.HasPrefix(s, MkE):
			if k := h % (len(eP) + 1); k < len(eP) {
				return eP[k] + s[len(MkE):] // "" = no prefix: the context's default namespace "_"
			}
			return ExE + s[len(MkE):]
		case strings.HasPrefix(s, MkS):
			if k := h % (len(sP) + 1); k < len(sP) {
				return sP[k] + s[len(MkS):]
			}
			return ExS + s[len(MkS):]
		}
		return s
	}
}

func styledBody(ents []Ent, seed int) []any {
	ns, _, _ := c15Context(seed)
	all := []any{map[string]any{"id": "@context", "namespaces": ns}}
	for _, e := range ents {
		all = append(all, mapEntity(e, styled(seed)))
	}
	return all
}

// styledTxn is the body of POST /transactions: a context and one entity array per dataset.
func styledTxn(parts []Part, seed int) map[string]any {
	ns, _, _ := c15Context(seed)
	body := map[string]any{"@context": map[string]any{"namespaces": ns}}
	for _, p := range parts {
		l := []any{}
		for _, e := range p.Ents {
			l = append(l, mapEntity(e, styled(seed)))
		}
		body[p.DS] = l
	}
	return body
}

// mutate applies a wrongly typed token to element idx (1-based position in the array; 0 = context).
func mutatePayload(all []any, kind string, idx int) []byte {
	cp := normJSON(all).([]any)
	if idx >= len(cp) {
		idx = len(cp) - 1
	}
	ent, _ := cp[idx].(map[string]any)
	switch kind {
	case "id-number":
		ent["id"] = 123
	case "id-null":
		ent["id"] = nil
	case "id-object":
		ent["id"] = map[string]any{"x": 1}
	case "deleted-string":
		ent["deleted"] = "false"
	case "deleted-number":
		ent["deleted"] = 1
	case "recorded-string":
		ent["recorded"] = "yesterday"
	case "refs-number":
		ent["refs"] = map[string]any{"s:p0": 5}
	case "refs-null":
		ent["refs"] = map[string]any{"s:p0": nil}
	case "refs-nested":
		ent["refs"] = map[string]any{"s:p0": map[string]any{"id": "x"}}
	case "props-array":
		ent["props"] = []any{1, 2}
	case "props-string":
		ent["props"] = "oops"
	case "entity-number":
		cp[idx] = 42
	case "namespaces-array":
		cp[0].(map[string]any)["namespaces"] = []any{}
	case "namespaces-value-number":
		cp[0].(map[string]any)["namespaces"] = map[string]any{"_": 5}
	case "namespaces-missing":
		delete(cp[0].(map[string]any), "namespaces")
	case "unknown-prefix":
		ent["id"] = "zz:thing"
	case "extra-token-member":
		ent["token"] = "abc"
	case "extra-object-member":
		ent["zextra"] = map[string]any{"id": "t:hijacked", "props": map[string]any{"s:hijacked": true}, "deleted": true}
	case "extra-array-member":
		ent["zextra"] = []any{"id", "t:hijacked", "deleted", true}
	}
	b, _ := json.Marshal(cp)
	return b
}

var c15TokenKinds = []string{"id-number", "id-null", "id-object", "deleted-string", "deleted-number", "recorded-string", "refs-number", "refs-null",
	"refs-nested", "props-array", "props-string", "entity-number", "namespaces-array", "namespaces-value-number", "unknown-prefix",
	"extra-token-member", "extra-object-member", "extra-array-member"}

// members the format does not define: a receiver may refuse the payload or ignore the member, but what it
// stores must be the entity as given without it
func c15MayIgnore(kind string) bool { return strings.HasPrefix(kind, "extra-") }

// prefixState finds i <= maxPrefix such that the dataset equals the model plus the first i entities.
func prefixState(h *Hub, m *Model, ds string, ents []Ent, maxPrefix int, pool []string) (int, *Violation) {
	var first *Violation
	for i := 0; i <= maxPrefix && i <= len(ents); i++ {
		c := m.Clone()
		c.Batch(ds, ents[:i])
		v := CheckLatest(h, c, ds, pool, nil)
		if v == nil {
			v = CheckFeed(h, c, ds, nil)
		}
		if v == nil {
			m.Batch(ds, ents[:i])
			return i, nil
		}
		if first == nil {
			first = v
		}
	}
	return -1, first
}

// RunC15Scenario executes profile C15.
func RunC15Scenario(sc *Scenario) (vd *Verdict) {
	vd = &Verdict{Verdict: "ok", Property: "C15", Profile: sc.Profile, Seed: sc.Seed}
	r := &C15Run{Sc: sc, MA: NewModel(), MB: NewModel(), Stats: map[string]int64{}, T: NewSimTransport()}
	start := time.Now()
	r.Pool, _ = collectNames(sc)
	mk := func(tag string) (*Hub, error) {
		d, s := NewDir(tag), NewDir(tag+"sec")
		r.dirs = append(r.dirs, d, s)
		return OpenWebHub(d, s, sc.Knobs, false)
	}
	var err error
	if r.A, err = mk("hubA"); err == nil {
		r.B, err = mk("hubB")
	}
	if err != nil {
		vd.Verdict, vd.Message = "error", err.Error()
		return
	}
	oldTransport := http.DefaultTransport
	http.DefaultTransport = r.T
	jobsource.VerifSetHTTPClient(&http.Client{Transport: r.T})
	r.T.Register("huba", r.A.Full.Web.Echo)
	r.T.Register("hubb", r.B.Full.Web.Echo)
	defer func() {
		http.DefaultTransport = oldTransport
		jobsource.VerifSetHTTPClient(nil)
		_ = r.A.Close()
		_ = r.B.Close()
		for _, d := range r.dirs {
			os.RemoveAll(d)
		}
	}()
	fail := func(v *Violation, step int) {
		vd.Verdict = "violation"
		if v.Oracle == "harness" {
			vd.Verdict = "invalid"
		}
		vd.Property, vd.Oracle, vd.Signature, vd.Message, vd.Step = "C15", v.Oracle, v.Signature, v.Message, step
	}
	defer func() {
		for k, v := range r.T.Count {
			r.Stats[k] += int64(v)
		}
		vd.Stats = r.Stats
		vd.TraceHash = fmt.Sprintf("%x", sha8(r.trace))
		vd.SimNS = int64(time.Since(start))
		vd.Nontrivial = r.Stats["payloads_posted"] >= 1 && r.Stats["messages"]+r.Stats["malformed_posts"] >= 1
	}()
	if sc.Knob("skewNS", 0) == 1 {
		for _, e := range []string{"http://skew.example.org/a/", "http://skew.example.org/b#", "http://skew.example.org/c/"} {
			_, _ = r.B.Store.NamespaceManager.AssertPrefixMappingForExpansion(e)
		}
		r.Stats["hubs_with_different_prefix_numbers"]++
	}
	for _, d := range []string{"src"} {
		var cfg *server.CreateDatasetConfig
		if sc.Knob("publicNS", 0) == 1 {
			// the dataset publishes its own context: the namespaces it lists, one of them not in use yet
			cfg = &server.CreateDatasetConfig{PublicNamespaces: []string{ExE, ExS, ExT}}
			r.Stats["datasets_with_public_namespaces"]++
		}
		_, _ = r.A.Dsm.CreateDataset(d, cfg)
		r.MA.Create(d)
	}
	for _, d := range []string{"copy", "pushed", "mal", "tx1", "tx2", "tx3"} {
		_, _ = r.B.Dsm.CreateDataset(d, nil)
		r.MB.Create(d)
	}
	pull := jobConfig("pull", map[string]any{"Type": "HttpDatasetSource", "Url": "http://huba/datasets/src/changes"}, map[string]any{"Type": "DatasetSink", "Name": "copy"}, nil, "incremental", int(sc.Knob("jobBatch", 3)))
	push := jobConfig("push", map[string]any{"Type": "DatasetSource", "Name": "src"}, map[string]any{"Type": "HttpDatasetSink", "Url": "http://hubb/datasets/pushed/entities"}, nil, "incremental", int(sc.Knob("jobBatch", 3)))
	if err := r.B.AddJobJSON(pull); err != nil {
		vd.Verdict, vd.Message = "error", err.Error()
		return
	}
	if err := r.A.AddJobJSON(push); err != nil {
		vd.Verdict, vd.Message = "error", err.Error()
		return
	}
	pulled, pushed := 0, 0 // how many versions of A.src have reached B.copy / B.pushed
	for i := range sc.Ops {
		op := &sc.Ops[i]
		time.Sleep(time.Duration(max64(op.Sleep, 1)))
		switch op.K {
		case "payload":
			b, _ := json.Marshal(styledBody(op.Ents, op.N))
			code, body := r.A.Do("POST", "/datasets/src/entities", nil, b)
			r.Stats["payloads_posted"]++
			if code != 200 {
				fail(viol("C15", "roundtrip", fmt.Sprintf("valid-payload-rejected:%d", code), "a valid UDA payload was answered %d %s: %s", code, strings.TrimSpace(string(body)), clip(string(b))), i)
				return
			}
			r.MA.Batch("src", op.Ents)
			if v := CheckLatest(r.A, r.MA, "src", r.Pool, nil); v != nil {
				v.Property, v.Oracle, v.Signature = "C15", "roundtrip", "posted-differs-from-stored:"+v.Signature
				fail(v, i)
				return
			}
			if v := CheckFeed(r.A, r.MA, "src", nil); v != nil {
				v.Property, v.Oracle, v.Signature = "C15", "roundtrip", "posted-differs-from-stored:"+v.Signature
				fail(v, i)
				return
			}
			r.ev("payload %d", len(op.Ents))
		case "readback":
			// a client reads the dataset back over HTTP, page by page (GET entities with from=, GET changes with since=, full and
			// latest-only), and parses every page with the hub's own stream parser: the pages put together are the
			// latest view (each entity once) resp. the change feed, entity for entity
			if v := r.readback(op); v != nil {
				fail(v, i)
				return
			}
		case "pull", "push":
			hub, id, target := r.B, "pull", "copy"
			done := &pulled
			if op.K == "push" {
				hub, id, target, done = r.A, "push", "pushed", &pushed
			}
			r.T.faults = nil
			faulty := false
			if op.M != nil {
				if l, ok := op.M["faults"].([]any); ok {
					for _, x := range l {
						fm := x.(map[string]any)
						f := &msgFault{Kind: fmt.Sprint(fm["kind"]), AtByte: intOf(fm, "at"), Chunk: intOf(fm, "chunk"), Nth: intOf(fm, "nth")}
						f.From, _ = fm["from"].(string)
						f.To, _ = fm["to"].(string)
						if f.Kind != "chunk" {
							faulty = true
						}
						r.T.AddFault(f)
					}
				}
			}
			_, ended, err := hub.RunJobToEnd(id, "incremental", 3*time.Hour)
			r.T.faults = nil
			if err != nil || !ended {
				fail(viol("C15", "job-run", "run-failed", "%s job: %v ended=%v", id, err, ended), i)
				return
			}
			r.Stats[op.K+"_runs"]++
			res := hub.LastResult(id)
			lastErr, _ := res["lastError"].(string)
			var rest []Ent
			for _, v := range r.MA.DS["src"].Versions[*done:] {
				rest = append(rest, specFromCanon(v.C))
			}
			if !faulty {
				if lastErr != "" {
					fail(viol("C15", "roundtrip", "transfer-failed:"+op.K, "fault-free %s of %d entity versions failed: %s", op.K, len(rest), lastErr), i)
					return
				}
				r.MB.Batch(target, rest)
				*done = len(r.MA.DS["src"].Versions)
				checks := []func() *Violation{func() *Violation { return CheckLatest(r.B, r.MB, target, r.Pool, nil) }}
				if !(op.K == "push" && r.pushRepeats) {
					checks = append(checks, func() *Violation { return CheckFeed(r.B, r.MB, target, nil) })
				}
				for _, chk := range checks {
					if v := chk(); v != nil {
						v.Property, v.Oracle, v.Signature = "C15", "roundtrip", op.K+":received-differs-from-sent:"+v.Signature
						v.Message = fmt.Sprintf("after a %s between two hubs: %s", op.K, v.Message)
						fail(v, i)
						return
					}
				}
				r.Stats["roundtrips_checked"]++
			} else if op.K == "push" {
				// a lost response or a duplicated request makes the sender deliver a batch again: the receiver's
				// feed may then repeat versions (at-least-once delivery), which is not a malformed payload. The
				// clean push that follows must bring the latest view to what was sent.
				r.pushRepeats = true
				r.Stats["push_retries_injected"]++
				if lastErr == "" {
					r.MB.Batch(target, rest)
					*done = len(r.MA.DS["src"].Versions)
					if v := CheckLatest(r.B, r.MB, target, r.Pool, nil); v != nil {
						v.Property, v.Oracle, v.Signature = "C15", "roundtrip", "push:received-differs-from-sent:"+v.Signature
						fail(v, i)
						return
					}
				}
			} else {
				// a damaged delivery: whatever arrived is an exact prefix of what was sent
				n, v := prefixState(r.B, r.MB, target, rest, len(rest), r.Pool)
				if v != nil {
					v.Property, v.Oracle, v.Signature = "C15", "delivery-fault", op.K+":not-a-prefix:"+v.Signature
					v.Message = fmt.Sprintf("after a %s with a damaged delivery the receiver holds something that is not a prefix of what was sent: %s", op.K, v.Message)
					fail(v, i)
					return
				}
				if lastErr == "" && n < len(rest) {
					fail(viol("C15", "delivery-fault", op.K+":damaged-delivery-reported-as-success", "the delivery was cut short (%d of %d versions arrived) but the job run reports success", n, len(rest)), i)
					return
				}
				if lastErr == "" {
					*done += n
				}
				r.Stats["damaged_transfers_checked"]++
			}
			r.ev("%s faulty=%v err=%v", op.K, faulty, lastErr != "")
		case "txn":
			body := styledTxn(op.Parts, op.N)
			kind, _ := op.M["kind"].(string)
			b, _ := json.Marshal(body)
			switch kind {
			case "truncate":
				at := intOf(op.M, "at") % (len(b) - 1)
				if at < 1 {
					at = 1
				}
				b = b[:at]
			case "dataset-object":
				body[op.Parts[0].DS] = map[string]any{"id": "t:x"}
				b, _ = json.Marshal(body)
			case "dataset-string":
				body[op.Parts[len(op.Parts)-1].DS] = "oops"
				b, _ = json.Marshal(body)
			case "entity-id-number":
				if l := body[op.Parts[len(op.Parts)-1].DS].([]any); len(l) > 0 {
					l[len(l)-1].(map[string]any)["id"] = 7
				} else {
					kind = ""
				}
				b, _ = json.Marshal(body)
			case "namespaces-array":
				body["@context"] = map[string]any{"namespaces": []any{}}
				b, _ = json.Marshal(body)
			case "unknown-dataset":
				body["nosuchdataset"] = []any{map[string]any{"id": "t:x"}}
				b, _ = json.Marshal(body)
			}
			code, resp := r.B.Do("POST", "/transactions", nil, b)
			r.Stats["transactions_posted"]++
			if kind == "" {
				if code != 200 {
					fail(viol("C15", "roundtrip", fmt.Sprintf("valid-transaction-rejected:%d", code), "a valid transaction payload was answered %d %s: %s", code, strings.TrimSpace(string(resp)), clip(string(b))), i)
					return
				}
				for _, p := range op.Parts {
					r.MB.Batch(p.DS, p.Ents)
				}
			} else {
				r.Stats["malformed_posts"]++
				r.Stats["malformed_txn_"+kind]++
				if code < 400 {
					fail(viol("C15", "malformed", "malformed-transaction-accepted:"+kind, "a transaction payload with a %s defect was answered %d: %s", kind, code, clip(string(b))), i)
					return
				}
			}
			// a transaction is stored as a whole or not at all
			for _, ds := range []string{"tx1", "tx2", "tx3"} {
				v := CheckLatest(r.B, r.MB, ds, r.Pool, nil)
				if v == nil {
					v = CheckFeed(r.B, r.MB, ds, nil)
				}
				if v != nil {
					v.Property, v.Oracle = "C15", "roundtrip"
					if kind == "" {
						v.Signature = "transaction:posted-differs-from-stored:" + v.Signature
					} else {
						v.Oracle, v.Signature = "malformed", "stored-from-malformed-transaction:"+kind
					}
					v.Message = fmt.Sprintf("after POST /transactions (%s, answered %d) dataset %s: %s; payload %s", kind, code, ds, v.Message, clip(string(b)))
					fail(v, i)
					return
				}
			}
			r.ev("txn %s %d", kind, code)
		case "malformed":
			all := styledBody(op.Ents, op.N)
			var body []byte
			maxPrefix := 0
			kind, _ := op.M["kind"].(string)
			switch kind {
			case "truncate":
				full, _ := json.Marshal(all)
				at := intOf(op.M, "at") % (len(full) - 1)
				if at < 1 {
					at = 1
				}
				body = full[:at]
				// entities completely contained in the cut prefix
				for k := 1; k <= len(op.Ents); k++ {
					p, _ := json.Marshal(all[:k+1])
					if len(p)-1 <= at { // without the closing bracket
						maxPrefix = k
					}
				}
			default:
				idx := 1 + intOf(op.M, "idx")%max(len(op.Ents), 1)
				if strings.HasPrefix(kind, "namespaces") {
					idx = 0
				}
				body = mutatePayload(all, kind, idx)
				if op.M["afterCont"] == true && idx >= 1 && sc.Knob("web.batchSize", 10) >= 10 && !c15MayIgnore(kind) {
					// (with a smaller handler batch the elements in front of the defect are stored before it is met, and the hub
					// stores a posted continuation element like an entity: left out of this oracle)
					// a continuation element (as a client gets one at the end of every page it reads) sits in front of
					// the defective element: what follows it is still part of the payload
					var l []any
					if json.Unmarshal(body, &l) == nil && idx <= len(l) {
						l = append(l[:idx:idx], append([]any{map[string]any{"id": "@continuation", "token": "MTIz"}}, l[idx:]...)...)
						body, _ = json.Marshal(l)
						r.Stats["malformed_after_continuation"]++
					}
				}
				maxPrefix = idx - 1
				if maxPrefix < 0 {
					maxPrefix = 0
				}
			}
			code, resp := r.B.Do("POST", "/datasets/mal/entities", nil, body)
			r.Stats["malformed_posts"]++
			r.Stats["malformed_"+kind]++
			if code < 400 && c15MayIgnore(kind) {
				r.MB.Batch("mal", op.Ents)
				v := CheckLatest(r.B, r.MB, "mal", r.Pool, nil)
				if v == nil {
					v = CheckFeed(r.B, r.MB, "mal", nil)
				}
				if v != nil {
					v.Property, v.Oracle, v.Signature = "C15", "malformed", "stored-from-malformed-element:"+kind
					v.Message = fmt.Sprintf("a payload with an undefined member (%s) was answered %d, but what was stored is not the entities as given without that member: %s; payload %s", kind, code, v.Message, clip(string(body)))
					fail(v, i)
					return
				}
				r.ev("malformed %s ignored", kind)
				break
			}
			if code < 400 {
				fail(viol("C15", "malformed", "malformed-payload-accepted:"+kind, "a payload with a %s defect was answered %d: %s", kind, code, clip(string(body))), i)
				return
			}
			n, v := prefixState(r.B, r.MB, "mal", op.Ents, maxPrefix, r.Pool)
			if v != nil {
				v.Property, v.Oracle, v.Signature = "C15", "malformed", "stored-from-malformed-element:"+kind
				v.Message = fmt.Sprintf("a payload with a %s defect (answered %d %s) left the dataset in a state that is not the entities before the defect: %s", kind, code, strings.TrimSpace(string(resp)), v.Message)
				fail(v, i)
				return
			}
			r.ev("malformed %s stored=%d", kind, n)
		}
	}
	return
}


// readback pages through one of hub A's read routes and compares what parses back with the model.
// queryback asks hub A's POST /query for the outgoing relations of several start entities at once, page by page
// through the continuation tokens of the answer, and compares the union with the graph of the latest versions.
func (r *C15Run) queryback(op *Op) *Violation {
	var starts []string
	for _, x := range op.A {
		starts = append(starts, fmt.Sprint(x))
	}
	want := map[string]bool{}
	for _, s := range starts {
		for pt := range r.MA.Out(markerToFull(s), "*", []string{"src"}) {
			want[markerToFull(s)+" "+pt[0]+" "+pt[1]] = true
		}
	}
	var curies []string
	for _, s := range starts {
		curies = append(curies, r.A.curie(s))
	}
	got := map[string]int{}
	body := map[string]any{"startingEntities": curies, "predicate": "*", "inverse": false, "datasets": []string{"src"}, "limit": op.Limit}
	for page := 0; page < 300; page++ {
		b, _ := json.Marshal(body)
		code, resp := r.A.Do("POST", "/query", nil, b)
		r.Stats["query_pages"]++
		if code != 200 {
			return viol("C15", "readback", fmt.Sprintf("query-rejected:%d", code), "POST /query %s was answered %d %s", b, code, clip(string(resp)))
		}
		var parts []json.RawMessage
		if err := json.Unmarshal(resp, &parts); err != nil || len(parts) < 2 {
			return viol("C15", "readback", "query-answer-does-not-parse", "POST /query %s: %v; body %s", b, err, clip(string(resp)))
		}
		var rows [][]json.RawMessage
		_ = json.Unmarshal(parts[1], &rows)
		for _, row := range rows {
			if len(row) != 3 {
				continue
			}
			var st, pr string
			var ent struct {
				ID string `json:"id"`
			}
			_ = json.Unmarshal(row[0], &st)
			_ = json.Unmarshal(row[1], &pr)
			_ = json.Unmarshal(row[2], &ent)
			got[r.A.expand(st)+" "+r.A.expand(pr)+" "+r.A.expand(ent.ID)]++
		}
		var conts []string
		if len(parts) >= 3 {
			_ = json.Unmarshal(parts[2], &conts)
		}
		if len(conts) == 0 || op.Limit == 0 {
			break
		}
		if page == 299 {
			return viol("C15", "readback", "query-paging-does-not-end", "POST /query over %v with limit %d still hands out continuation tokens after 300 pages", starts, op.Limit)
		}
		body = map[string]any{"continuations": conts, "limit": op.Limit}
	}
	for k := range want {
		if got[k] == 0 {
			return viol("C15", "readback", "query-pages-miss-a-relation", "POST /query over start entities %v (outgoing, any predicate, limit %d) read through its continuation tokens lacks %s; got %v", starts, op.Limit, k, sortedKeysInt(got))
		}
	}
	for k, n := range got {
		if !want[k] {
			return viol("C15", "readback", "query-pages-extra-relation", "POST /query over start entities %v (limit %d) returned %s, which the latest versions do not imply", starts, op.Limit, k)
		}
		if n > 1 {
			return viol("C15", "readback", "query-pages-repeat-a-relation", "POST /query over start entities %v (limit %d) read through its continuation tokens returned %s %d times", starts, op.Limit, k, n)
		}
	}
	r.Stats["querybacks_checked"]++
	return nil
}

func sortedKeysInt(m map[string]int) []string {
	var l []string
	for k := range m {
		l = append(l, k)
	}
	sort.Strings(l)
	return l
}

func (r *C15Run) readback(op *Op) *Violation {
	if op.S == "query" {
		return r.queryback(op)
	}
	limit := op.Limit
	kind := op.S // entities | changes | latest
	var got []string
	token := ""
	if kind != "latest" {
		// another client reads the same collection as JSON-LD first; the context handed out afterwards is the
		// hub's own: numbered prefixes, every expansion once
		p := "/datasets/src/entities"
		if kind == "changes" {
			p = "/datasets/src/changes"
		}
		code, _ := r.A.Do("GET", p+"?limit=1", map[string]string{"Accept": "application/ld+json"}, nil)
		r.Stats["jsonld_reads"]++
		if code != 200 {
			return viol("C15", "readback", fmt.Sprintf("jsonld-read-rejected:%d", code), "GET %s as application/ld+json was answered %d", p, code)
		}
		code, body := r.A.Do("GET", "/namespaces", nil, nil)
		var nsm map[string]string
		if code == 200 && json.Unmarshal(body, &nsm) == nil {
			seen := map[string]string{}
			for _, pfx := range sortedKeys(nsm) {
				ok := strings.HasPrefix(pfx, "ns") && len(pfx) > 2
				for _, ch := range pfx[min(2, len(pfx)):] {
					if ch < '0' || ch > '9' {
						ok = false
					}
				}
				if !ok {
					return viol("C15", "readback", "context-with-foreign-prefix", "after a JSON-LD read GET /namespaces lists prefix %q -> %q, which the hub never handed out", pfx, nsm[pfx])
				}
				if q, dup := seen[nsm[pfx]]; dup {
					return viol("C15", "readback", "context-with-two-prefixes-for-one-expansion", "after a JSON-LD read GET /namespaces lists %q under both %s and %s", nsm[pfx], q, pfx)
				}
				seen[nsm[pfx]] = pfx
			}
			r.Stats["namespace_listings_checked"]++
		}
	}
	for page := 0; page < 1500; page++ {
		path := "/datasets/src/entities"
		q := []string{}
		if kind != "entities" {
			path = "/datasets/src/changes"
			if kind == "latest" {
				q = append(q, "latestOnly=true")
			}
			if token != "" {
				q = append(q, "since="+url.QueryEscape(token))
			}
		} else if token != "" {
			q = append(q, "from="+url.QueryEscape(token))
		}
		if limit > 0 {
			q = append(q, fmt.Sprintf("limit=%d", limit))
		}
		if len(q) > 0 {
			path += "?" + strings.Join(q, "&")
		}
		code, body := r.A.Do("GET", path, nil, nil)
		r.Stats["readback_pages"]++
		if code != 200 {
			return viol("C15", "readback", fmt.Sprintf("read-rejected:%s:%d", kind, code), "GET %s was answered %d %s", path, code, clip(string(body)))
		}
		n, next := 0, ""
		err := server.NewEntityStreamParser(r.B.Store).ParseStream(bytes.NewReader(body), func(e *server.Entity) error {
			if e.ID == "@continuation" {
				next, _ = e.Properties["token"].(string)
				return nil
			}
			n++
			got = append(got, r.B.Canon(e).String())
			return nil
		})
		if err != nil {
			return viol("C15", "readback", "page-does-not-parse:"+kind, "the answer to GET %s does not parse back: %v; body %s", path, err, clip(string(body)))
		}
		if n == 0 || next == "" || (limit == 0 && kind == "entities") {
			break
		}
		if limit == 0 {
			// an unlimited page of changes is complete; its token, read again, yields nothing (checked by the next round)
			token = next
			continue
		}
		token = next
	}
	d := r.MA.DS["src"]
	var want []string
	switch kind {
	case "entities":
		for _, id := range sortedKeys(d.Latest) {
			want = append(want, d.LatestOf(id).String())
		}
		g2 := append([]string(nil), got...)
		sort.Strings(g2)
		sort.Strings(want)
		got = g2
	case "changes":
		for _, v := range d.Versions {
			want = append(want, v.Str)
		}
	default:
		for i, v := range d.Versions {
			if d.Latest[v.C.ID] == i {
				want = append(want, v.Str)
			}
		}
	}
	if i := firstDiff(want, got); i >= 0 {
		return viol("C15", "readback", "pages-differ-from-stored:"+kind, "GET %s of hub A read page by page (limit %d) and parsed back differs from what was posted at position %d: got %s, want %s (%d entities read, %d expected)", kind, limit, i, at(got, i), at(want, i), len(got), len(want))
	}
	r.Stats["readbacks_checked"]++
	return nil
}
