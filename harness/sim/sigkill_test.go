package verifsim

import (
	"fmt"
	"os"
	"strconv"
	"testing"
	"time"

	"github.com/mimiro-io/datahub/internal/server"
)

// Cross-check of the crash model against real process deaths (selftest/sigkill.py): a victim process writes
// batches and transactions on the real clock and acknowledges each on stdout; the parent kills it with SIGKILL
// at a random instant and an inspector process judges what the files hold with the oracles the simulated
// crashes are judged with (acknowledged history, or that plus the whole operation in flight; raw scan; writes
// with fresh positions and identifiers). Not a check of a property: evidence that "copy of the directory at a
// hook point / log prefix" is what a killed process leaves.

func victimOp(i int) Op {
	// ids are disjoint per dataset and every entity keeps its one reference, so that the open finding KF-C03-1
	// (incoming queries after a multi-relation history) stays out of the picture
	ents := func(ds, tag string, n int) []Ent {
		var l []Ent
		for k := 0; k < n; k++ {
			x := (i*7 + k) % 9
			l = append(l, Ent{"id": fmt.Sprintf("%s%s%d", MkE, ds, x), "props": map[string]any{MkS + "w": fmt.Sprintf("%s.%d.%d", tag, i, k)}, "refs": map[string]any{MkS + "p0": fmt.Sprintf("%s%s%d", MkE, ds, (x+1)%9)}})
		}
		return l
	}
	if i%3 == 2 {
		return Op{K: "txn", Parts: []Part{{DS: "dsA", Ents: ents("dsA", "ta", 1+i%3)}, {DS: "dsB", Ents: ents("dsB", "tb", 1+i%2)}}}
	}
	ds := []string{"dsA", "dsB"}[i%2]
	return Op{K: "batch", DS: ds, Ents: ents(ds, "b", 1+i%4)}
}

func applyVictimOp(h *Hub, op Op) error {
	if op.K == "batch" {
		return h.Dataset(op.DS).StoreEntities(h.Entities(op.Ents))
	}
	tx := &server.Transaction{DatasetEntities: map[string][]*server.Entity{}}
	for _, p := range op.Parts {
		tx.DatasetEntities[p.DS] = h.Entities(p.Ents)
	}
	return h.Store.ExecuteTransaction(tx)
}

func TestKillVictim(t *testing.T) {
	dir := os.Getenv("VERIF_VICTIM_DIR")
	if dir == "" {
		t.Skip("VERIF_VICTIM_DIR not set")
	}
	ResetHooks(nil)
	h, err := OpenHub(dir, nil)
	if err != nil {
		t.Fatal(err)
	}
	for _, d := range []string{"dsA", "dsB"} {
		if _, err := h.Dsm.CreateDataset(d, nil); err != nil {
			t.Fatal(err)
		}
	}
	fmt.Println("READY")
	for i := 0; ; i++ {
		if err := applyVictimOp(h, victimOp(i)); err != nil {
			fmt.Println("ERR", i, err)
			return
		}
		fmt.Println("ACK", i)
		os.Stdout.Sync()
		if i%5 == 4 {
			time.Sleep(time.Millisecond)
		}
	}
}

func TestKillInspect(t *testing.T) {
	dir := os.Getenv("VERIF_INSPECT_DIR")
	if dir == "" {
		t.Skip("VERIF_INSPECT_DIR not set")
	}
	acked, _ := strconv.Atoi(os.Getenv("VERIF_ACKED")) // number of acknowledged operations
	ResetHooks(nil)
	h, err := OpenHub(dir, nil)
	if err != nil {
		fmt.Println("INSPECT violation: the store does not open after SIGKILL:", err)
		return
	}
	defer h.Close()
	sc := &Scenario{Property: "C04", Datasets: []string{"dsA", "dsB"}}
	for i := 0; i <= acked; i++ {
		sc.Ops = append(sc.Ops, victimOp(i))
	}
	pool, preds := collectNames(sc)
	r := &CrashRun{SeqRun: &SeqRun{Sc: sc, H: h, M: NewModel(), Stats: map[string]int64{}, Pool: pool, Preds: preds}}
	mk := func(n int) *Model {
		m := NewModel()
		m.Create("dsA")
		m.Create("dsB")
		for i := 0; i < n; i++ {
			op := victimOp(i)
			if op.K == "batch" {
				m.Batch(op.DS, op.Ents)
			} else {
				for _, p := range op.Parts {
					m.Batch(p.DS, p.Ents)
				}
			}
		}
		return m
	}
	var msgs []string
	matched := -1
	for k, m := range []*Model{mk(acked), mk(acked + 1)} {
		if v := r.checkAgainst(h, m); v == nil {
			matched = k
			break
		} else {
			msgs = append(msgs, v.Message)
		}
	}
	if matched < 0 {
		fmt.Printf("INSPECT violation: after SIGKILL with %d acknowledged operations the state equals neither the acknowledged history nor that plus the operation in flight: %v\n", acked, msgs)
		return
	}
	if _, v := RawConsistency(h, "C04"); v != nil {
		fmt.Println("INSPECT violation:", v.Message)
		return
	}
	fresh := []Ent{{"id": MkE + "postkill", "props": map[string]any{}, "refs": map[string]any{}}}
	if err := h.Dataset("dsA").StoreEntities(h.Entities(fresh)); err != nil {
		fmt.Println("INSPECT violation: write after SIGKILL rejected:", err)
		return
	}
	fmt.Printf("INSPECT ok acked=%d inflight_survived=%v\n", acked, matched == 1)
}
