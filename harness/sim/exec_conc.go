package verifsim

import (
	"encoding/json"
	"fmt"
	"os"
	"sort"
	"strings"
	"time"

	"github.com/mimiro-io/datahub/internal/server"
	dsvc "github.com/mimiro-io/datahub/internal/service/dataset"
)

// Concurrent store-level executor (C05, C19 concurrent part, C13 concurrent part).

type concOp struct {
	op        *Op
	task      int
	idx       int
	commitIdx int // 0 = no commit observed
	err       error
	done      bool
	// read results
	readAt   int // number of commits before the read returned
	readFrom int // number of commits before the read was issued (its snapshot lies between the two)
	readOK   bool
	readRes  any
	// the read fits one of the serial states up to a recorded finding
	readKnown *Violation
}

type ConcRun struct {
	Sc             *Scenario
	H              *Hub
	S              *Sched
	Stats          map[string]int64
	ops            [][]*concOp
	commits        int
	commitOf       []*concOp // in commit order
	tainted        map[string]bool
	compactStart   int // number of commits before the compaction task took its snapshot
	compactStarted bool
	dupLatest      map[string]bool     // entities whose newest version (before the concurrent phase) duplicates its predecessor
	tokens         map[int]uint64      // per reader task: continuation token
	readers        map[int]*FeedReader // post-hoc verification state
	sharedMap      string              // dataset whose deletion changed the deleted-datasets map in place
	victimIDs      map[uint32]string   // C07c: internal id -> name of the datasets the scenario deletes
	held           map[string]*server.Dataset // handles clients resolved before the history began (an upload keeps its handle for all batches of its body)
}

type readLookup struct {
	id    string
	scope []string
	ent   *CanonEnt
	nilR  bool
	err   error
}
type readList struct {
	ds   string
	ents []string
	err  error
}
type readTok struct {
	ds     string
	latest bool
	limit  int
	token  uint64
	next   uint64
	ents   []string
	err    error
}

// readScan is a whole-feed read in either direction; the reversed one is read entry by entry through the
// service-level iterator (GET /changes?reverse=true) with other tasks scheduled in between.
type readScan struct {
	ds      string
	reverse bool
	ents    []string
	err     error
}
type readFeed struct {
	ds    string
	since uint64
	ents  []string
	err   error
}

func (r *ConcRun) execOp(t *Task, co *concOp) {
	op := co.op
	if op.Sleep > 0 {
		time.Sleep(time.Duration(op.Sleep))
	}
	h := r.H
	co.readFrom = r.commits
	switch op.K {
	case "batch":
		ds := h.Dataset(op.DS)
		if op.N == 1 && r.held[op.DS] != nil {
			ds = r.held[op.DS]
			r.Stats["writes_through_a_handle_held_across_a_rename"]++
		}
		if ds == nil {
			co.err = fmt.Errorf("no dataset %s", op.DS)
			return
		}
		co.err = ds.StoreEntities(h.Entities(op.Ents))
	case "txn":
		tx := &server.Transaction{DatasetEntities: map[string][]*server.Entity{}}
		for _, p := range op.Parts {
			tx.DatasetEntities[p.DS] = h.Entities(p.Ents)
		}
		co.err = h.Store.ExecuteTransaction(tx)
	case "lookup":
		co.readAt = r.commits
		e, err := h.Store.GetEntity(h.curie(op.S), scopeOf(op), true)
		rl := &readLookup{id: op.S, scope: scopeOf(op), err: err}
		if e == nil {
			rl.nilR = true
		} else {
			rl.ent = h.Canon(e)
		}
		co.readRes = rl
	case "list":
		ds := h.Dataset(op.DS)
		rl := &readList{ds: op.DS}
		if ds != nil {
			res, err := ds.GetEntities("", op.Limit)
			// the read gives the scheduler a chance when it begins; what it sees is the state when it returns
			co.readAt = r.commits
			rl.err = err
			if err == nil {
				rl.ents = canonList(h, res.Entities)
			}
		}
		co.readRes = rl
	case "feed":
		co.readAt = r.commits
		ds := h.Dataset(op.DS)
		rf := &readFeed{ds: op.DS, since: op.Since}
		if ds != nil {
			res, err := ds.GetChanges(0, op.Limit, false)
			co.readAt = r.commits
			rf.err = err
			if err == nil {
				rf.ents = canonList(h, res.Entities)
			}
		}
		co.readRes = rf
	case "readTok":
		co.readAt = r.commits
		ds := h.Dataset(op.DS)
		rt := &readTok{ds: op.DS, latest: op.Latest, limit: op.Limit, token: r.tokens[co.task]}
		if ds != nil {
			res, err := ds.GetChanges(rt.token, op.Limit, op.Latest)
			co.readAt = r.commits
			rt.err = err
			if err == nil {
				rt.ents = canonList(h, res.Entities)
				rt.next = res.NextToken
				r.tokens[co.task] = res.NextToken
			}
		}
		co.readRes = rt
		r.Stats["reader_pages"]++
	case "scan":
		co.readAt = r.commits
		rs := &readScan{ds: op.DS, reverse: op.Latest}
		if rs.reverse {
			of, err := dsvc.Of(server.NewBadgerAccess(h.Store, h.Dsm), op.DS)
			if err != nil {
				rs.err = err
			} else if it, err := of.At(0); err != nil {
				rs.err = err
			} else {
				it = it.Inverse()
				for it.Next() {
					var e server.Entity
					if err := json.Unmarshal(it.Item(), &e); err != nil {
						rs.err = err
						break
					}
					rs.ents = append(rs.ents, h.Canon(&e).String())
					hooks.Point(h.Store.VerifDB(), "harness.scan.step") // other tasks run between two entries
				}
				if rs.err == nil {
					rs.err = it.Error()
				}
				_ = it.Close()
			}
		} else if ds := h.Dataset(op.DS); ds != nil {
			res, err := ds.GetChanges(0, 0, false)
			co.readAt = r.commits
			rs.err = err
			if err == nil {
				rs.ents = canonList(h, res.Entities)
			}
		}
		co.readRes = rs
		r.Stats["feed_scans"]++
	case "nsid":
		if c, err := h.Store.GetNamespacedIdentifier(op.S, nil); err != nil || c == "" {
			co.err = fmt.Errorf("GetNamespacedIdentifier(%q) = %q, %v", op.S, c, err)
		} else if back, err := h.Store.ExpandCurie(c); err != nil || back != op.S {
			co.err = fmt.Errorf("%q -> %q -> %q (%v)", op.S, c, back, err)
		}
		r.Stats["roundtrips"]++
	case "ctx":
		var ctx *server.Context
		switch op.N {
		case 0:
			ctx = h.Store.GetGlobalContext(true)
		case 1:
			ctx = h.Store.GetGlobalContext(false)
		default:
			ctx = h.Store.NamespaceManager.GetContext(nil)
		}
		seen := map[string]string{}
		for p, e := range ctx.Namespaces {
			if q, dup := seen[e]; dup {
				co.err = fmt.Errorf("context maps expansion %q to both %s and %s", e, q, p)
			}
			seen[e] = p
		}
		r.Stats["context_reads"]++
	case "compact":
		r.compactStart = r.commits
		r.compactStarted = true
		co.err = h.Compact(op.DS, op.N)
		r.Stats["compactions"]++
	case "createDataset":
		_, co.err = h.Dsm.CreateDataset(op.DS, nil)
	case "deleteDataset":
		// lock-free readers (lookups, relationship queries, the garbage collector) hold the map of deleted
		// datasets: a delete has to swap in a copy, never add to the map they hold
		held := h.Store.VerifDeletedDatasets()
		n := len(held)
		co.err = h.Dsm.DeleteDataset(op.DS)
		if co.err == nil && len(held) != n && r.sharedMap == "" {
			r.sharedMap = op.DS
		}
	case "renameDataset":
		_, co.err = h.Dsm.UpdateDataset(op.DS, &server.UpdateDatasetConfig{ID: op.DS2})
	case "gc":
		// the garbage collector's pass over the deleted datasets (it runs at every start and daily) while clients
		// delete other datasets
		co.err = server.NewGarbageCollector(h.Store, h.Env).Cleandeleted()
		r.Stats["gc_runs_concurrent"]++
	case "publicNS":
		// a client declares the public namespaces of a dataset the way the API documents it: it posts the
		// dataset's meta-entity, with the list, to core.Dataset (another client may be deleting that dataset)
		ent := h.Dsm.NewDatasetEntity(op.DS, nil, nil, []string{ExE, ExS})
		if core := h.Dataset("core.Dataset"); core != nil {
			co.err = core.StoreEntities([]*server.Entity{ent})
		}
		r.Stats["public_namespace_posts"]++
	case "listDatasets":
		// a client asks for the dataset list while others create, rename and delete datasets
		_ = h.Dsm.GetDatasetNames()
		r.Stats["dataset_lists"]++
	case "think":
	}
}

func scopeOf(op *Op) []string {
	var out []string
	for _, x := range op.A {
		if s, ok := x.(string); ok {
			out = append(out, s)
		}
	}
	return out
}

func isWrite(k string) bool { return k == "batch" || k == "txn" }

// RunConcScenario executes profile C05.
func RunConcScenario(sc *Scenario) (vd *Verdict) {
	vd = &Verdict{Verdict: "ok", Property: sc.Property, Profile: sc.Profile, Seed: sc.Seed}
	start := time.Now()
	h, err := OpenHub(NewDir("hub"), sc.Knobs)
	if err != nil {
		vd.Verdict, vd.Message = "error", err.Error()
		return
	}
	defer func() {
		_ = h.Close()
		_ = os.RemoveAll(h.Dir)
	}()
	r := &ConcRun{Sc: sc, H: h, Stats: map[string]int64{}, tainted: map[string]bool{}, tokens: map[int]uint64{}, readers: map[int]*FeedReader{}}
	m := NewModel()
	for _, d := range sc.Datasets {
		if _, err := h.Dsm.CreateDataset(d, nil); err != nil {
			vd.Verdict, vd.Message = "error", err.Error()
			return
		}
		m.Create(d)
	}
	// sequential prefix (history before the concurrent phase)
	for i := range sc.Ops {
		op := &sc.Ops[i]
		time.Sleep(time.Nanosecond)
		switch op.K {
		case "batch":
			if err := h.Dataset(op.DS).StoreEntities(h.Entities(op.Ents)); err != nil {
				vd.Verdict, vd.Message = "error", "prefix batch: "+err.Error()
				return
			}
			m.Batch(op.DS, op.Ents)
		case "dupCore":
			// the catalogue entry of the dataset gets a legacy duplicate as its newest version
			if info, err := h.Store.NamespaceManager.GetDatasetNamespaceInfo(); err == nil {
				if ok, err := h.Dataset("core.Dataset").VerifInjectDuplicate(info.DatasetPrefix+":"+op.DS, time.Now().UnixNano()); err == nil && ok {
					r.Stats["legacy_duplicates_in_the_catalogue"]++
				}
			}
		case "renameRound":
			// the dataset is given another name and then its old name back; a client that resolved it before keeps
			// its handle and writes through it later
			if r.held == nil {
				r.held = map[string]*server.Dataset{}
			}
			r.held[op.DS] = h.Dataset(op.DS)
			for _, step := range [][2]string{{op.DS, op.DS2}, {op.DS2, op.DS}} {
				if _, err := h.Dsm.UpdateDataset(step[0], &server.UpdateDatasetConfig{ID: step[1]}); err != nil {
					vd.Verdict, vd.Message = "error", "prefix rename: "+err.Error()
					return
				}
			}
			r.Stats["renames_there_and_back"]++
		case "dup":
			if ok, err := h.Dataset(op.DS).VerifInjectDuplicate(h.curie(op.S), time.Now().UnixNano()); err == nil && ok {
				if cur := m.DS[op.DS].LatestOf(markerToFull(op.S)); cur != nil {
					m.DS[op.DS].ForceAppend(cur)
				}
			}
		}
	}
	time.Sleep(time.Nanosecond)
	r.victimIDs = map[uint32]string{}
	for _, ops := range sc.Tasks {
		for _, op := range ops {
			if op.K == "deleteDataset" {
				if ds := h.Dataset(op.DS); ds != nil {
					r.victimIDs[ds.InternalID] = op.DS
				}
			}
		}
	}
	r.dupLatest = map[string]bool{}
	for _, d := range m.DS {
		rem := d.removable()
		for id, i := range d.Latest {
			if rem[i] {
				r.dupLatest[d.Name+"|"+id] = true
			}
		}
	}
	s := NewSched()
	r.S = s
	s.schedule = sc.Schedule
	if len(sc.Schedule) == 0 {
		if seed, ok := sc.Knobs["schedSeed"]; ok {
			s.gen = NewG(uint64(seed))
			s.pPreempt = float64(sc.Knob("preemptPct", 20)) / 100
		}
	}
	if v, ok := sc.Knobs["maxSteps"]; ok {
		s.MaxSteps = int(v)
	}
	if sc.Knob("preemptNsLock", 0) == 1 {
		s.preempt["ns.lock"] = true
	}
	for _, d := range sc.Datasets {
		s.SetName(h.Dataset(d), d)
	}
	s.SetName(h.Dataset("core.Dataset"), "core.Dataset")
	s.OnPoint = func(t *Task, name string) {
		if name == "StoreEntities.afterDataCommit" || name == "ExecuteTransaction.afterDataCommit" {
			if co, _ := t.Cur.(*concOp); co != nil && isWrite(co.op.K) && co.commitIdx == 0 {
				r.commits++
				co.commitIdx = r.commits
				r.commitOf = append(r.commitOf, co)
			}
		}
	}
	hooks.sched = s
	defer func() { hooks.sched = nil }()
	for ti, ops := range sc.Tasks {
		var cos []*concOp
		for oi := range ops {
			cos = append(cos, &concOp{op: &sc.Tasks[ti][oi], task: ti, idx: oi})
			k := ops[oi].K
			if k == "createDataset" && ops[oi].M != nil && ops[oi].M["race"] == true {
				// concurrent creation of one name is idempotent: the dataset exists exactly once
				m.Create(ops[oi].DS)
				continue
			}
			if k == "createDataset" || k == "deleteDataset" || k == "renameDataset" {
				r.tainted[ops[oi].DS] = true
				if ops[oi].DS2 != "" {
					r.tainted[ops[oi].DS2] = true
				}
			}
		}
		r.ops = append(r.ops, cos)
		var tk *Task
		name := fmt.Sprintf("T%d", ti)
		tk = s.Spawn(name, h.Store.VerifDB(), func() {
			for _, co := range cos {
				tk.Cur = co
				r.execOp(tk, co)
				co.done = true
				tk.Cur = nil
			}
		})
	}
	s.Run()
	hooks.sched = nil
	// results ---------------------------------------------------------------------------
	for k, v := range s.Stats {
		r.Stats[k] = v
	}
	r.Stats["steps"] = int64(s.Steps)
	r.Stats["commits"] = int64(r.commits)
	r.Stats["lock_order_pairs"] = int64(len(s.lockPairs))
	vd.Stats = r.Stats
	vd.TraceHash = s.TraceHash()
	vd.SimNS = int64(time.Since(start))
	vd.Nontrivial = r.commits >= 2 && s.Stats["preemptions"] >= 1
	// make the scenario explicit: the schedule that ran is the schedule on disk
	if len(sc.Schedule) == 0 && s.gen != nil {
		sc.Schedule = append([]int(nil), s.Chosen...)
		delete(sc.Knobs, "schedSeed")
	}
	fail := func(v *Violation) {
		vd.Verdict = "violation"
		vd.Property, vd.Oracle, vd.Signature, vd.Message = sc.Property, v.Oracle, v.Signature, v.Message
	}
	if s.Violation != nil {
		fail(s.Violation)
		return
	}
	if r.sharedMap != "" {
		fail(viol(sc.Property, "shared-state", "deleted-datasets-map-mutated-in-place", "DeleteDataset(%s) added to the map of deleted datasets that lock-free readers already hold: a concurrent map read and write ends the process", r.sharedMap))
		return
	}
	if s.Stats["budget_exhausted"] > 0 {
		vd.Verdict, vd.Message = "invalid", "step budget exhausted"
		return
	}
	for ti, cos := range r.ops {
		for _, co := range cos {
			if !co.done {
				fail(viol(sc.Property, "hang", "unfinished-task", "task %d op %d (%s) never finished", ti, co.idx, co.op.K))
				return
			}
		}
	}
	if sc.Property == "C07" {
		if v := r.checkDeletedStayHidden(m); v != nil {
			fail(v)
		}
		return
	}
	if sc.Property == "C19" {
		r.Stats["catalogue_checks"]++
		if v, name := checkCatalogue(h, nil); v != nil {
			// (label of the former finding KF-C19-1, repaired) create / delete / rename of a dataset racing writes to the same dataset name
			if r.tainted[name] {
				v.Signature = "concurrent-with-dataset-management:" + v.Signature
			} else {
				v.Signature = "concurrent:" + v.Signature
			}
			fail(v)
		}
		return
	}
	// serial replay in commit order; reads are checked at their position
	var reads []*concOp
	for _, cos := range r.ops {
		for _, co := range cos {
			if co.readRes != nil {
				reads = append(reads, co)
			}
			if isWrite(co.op.K) && co.err != nil && co.commitIdx == 0 {
				r.Stats["writes_rejected"]++
			}
			if co.op.M != nil && co.op.M["invalid"] == true {
				r.Stats["invalid_batches"]++
				if co.err == nil || co.commitIdx != 0 {
					fail(viol(sc.Property, "serial", "invalid-batch-accepted", "task %d op %d: a batch containing a nil reference was accepted (err=%v, committed=%v)", co.task, co.idx, co.err, co.commitIdx != 0))
					return
				}
				continue
			}
			if isWrite(co.op.K) && co.err == nil && co.commitIdx == 0 {
				fail(viol(sc.Property, "serial", "ack-without-commit", "task %d op %d acknowledged but no commit was observed", co.task, co.idx))
				return
			}
		}
	}
	// a read takes its snapshot somewhere between its call and its return (it yields to other tasks on the way):
	// it has to agree with the serial state after k commits for some k in that interval
	sort.SliceStable(reads, func(i, j int) bool { return reads[i].readFrom < reads[j].readFrom })
	checkReads := func(upto int) *Violation {
		for _, co := range reads {
			if co.readFrom > upto {
				break
			}
			if co.readOK || co.readAt < upto {
				continue
			}
			v := r.checkRead(m, co)
			if v == nil {
				co.readOK = true
			} else if co.readAt == upto {
				if co.readKnown != nil && !IsKnown(v) {
					// at one of the states the read is what a recorded finding explains
					return co.readKnown
				}
				return v
			} else if IsKnown(v) && co.readKnown == nil {
				co.readKnown = v
			} else if traceOut {
				fmt.Fprintf(os.Stderr, "EV read of task %d (commits %d..%d) does not fit the state after %d commits: %s\n", co.task, co.readFrom, co.readAt, upto, v.Message)
			}
		}
		return nil
	}
	if v := checkReads(0); v != nil {
		fail(v)
		return
	}
	for i, co := range r.commitOf {
		switch co.op.K {
		case "batch":
			if m.DS[co.op.DS] != nil {
				m.Batch(co.op.DS, co.op.Ents)
			}
		case "txn":
			for _, p := range co.op.Parts {
				if m.DS[p.DS] != nil {
					m.Batch(p.DS, p.Ents)
				}
			}
		}
		if v := checkReads(i + 1); v != nil {
			fail(v)
			return
		}
	}
	if sc.Property == "C12" {
		if v := checkCatalogueLatest(h); v != nil {
			fail(v)
			return
		}
	}
	for _, name := range m.Names() {
		if r.tainted[name] {
			continue
		}
		pool, _ := collectNames(sc)
		if sc.Property == "C12" {
			for _, cos := range r.ops {
				for _, co := range cos {
					if co.op.K == "compact" && co.err != nil {
						fail(viol("C12", "compaction", "compact-error", "compaction failed while a writer was active: %v", co.err))
						return
					}
				}
			}
			// (label of the former finding KF-C12-1, repaired) the compactor decided from its snapshot to drop the newest (duplicate) version of an
			// entity and to point "latest" back at the predecessor, while a writer stored a newer version
			racePrefix := "racing-writer:"
			for _, co := range r.commitOf {
				if !r.compactStarted || co.commitIdx <= r.compactStart || co.op.K != "batch" {
					continue
				}
				for _, e := range co.op.Ents {
					if r.dupLatest[co.op.DS+"|"+CanonSpec(e).ID] {
						racePrefix = "racing-writer-vs-latest-rewrite:"
					}
				}
			}
			relabel := func(v *Violation) { v.Signature = racePrefix + strings.TrimPrefix(v.Signature, "racing-writer:") }
			_ = relabel
			if v := CheckCompactedFeed(h, m, name, "C12"); v != nil {
				v.Signature = racePrefix + v.Signature
				fail(v)
				return
			}
			if v := CheckLatest(h, m, name, pool, []int{2}); v != nil {
				v.Property, v.Oracle = "C12", "compaction"
				v.Signature = racePrefix + "latest-view:" + v.Signature
				fail(v)
				return
			}
			rv, _ := CheckRelations(h, m, pool, nil, [][]string{nil, {name}}, nil, func(x *Violation) bool { return !IsKnown(x) })
			if rv != nil {
				rv.Property, rv.Oracle = "C12", "compaction"
				rv.Signature = racePrefix + "relations:" + rv.Signature
				fail(rv)
				return
			}
			continue
		}
		if sc.Property == "C05" {
			if v := CheckLatest(h, m, name, pool, []int{2}); v != nil {
				v.Oracle, v.Signature = "serial", "final-latest:"+v.Signature
				fail(v)
				return
			}
		}
		if v := CheckFeed(h, m, name, []int{2}); v != nil {
			if sc.Property == "C05" {
				v.Oracle = "serial"
			}
			v.Signature = "final-feed:" + v.Signature
			fail(v)
			return
		}
	}
	if len(s.Races) > 0 {
		r.Stats["lockset_races"] = int64(len(s.Races))
	}
	if sc.Property == "C13" {
		for _, cos := range r.ops {
			for _, co := range cos {
				if (co.op.K == "nsid" || co.op.K == "ctx") && co.err != nil {
					fail(viol("C13", "concurrent-consistency", "inconsistent-answer:"+co.op.K, "task %d op %d: %v", co.task, co.idx, co.err))
					return
				}
			}
		}
		for _, rc := range s.Races {
			if strings.HasPrefix(rc, "ns.maps") {
				fail(viol("C13", "lockset-race", "ns.maps:"+raceSites(rc), "namespace maps are read and written by concurrent requests without a common lock: %s", rc))
				return
			}
		}
		mem := NewNSMem()
		var cur []string
		pool, _ := collectNames(sc)
		for _, u := range pool {
			if c, err := h.Store.GetNamespacedIdentifier(markerToFull(u), nil); err == nil && c != "" {
				cur = append(cur, c)
			}
		}
		if v := ObserveNS(h, mem, cur, ":concurrent"); v != nil {
			fail(v)
			return
		}
		// at quiescence every context a client can ask for holds every namespace that was handed out
		live := h.Store.NamespaceManager.GetPrefixToExpansionMap()
		for variant, ctx := range map[string]*server.Context{"global": h.Store.GetGlobalContext(false), "global-strict": h.Store.GetGlobalContext(true), "manager": h.Store.NamespaceManager.GetContext(nil)} {
			for _, p := range sortedKeys(live) {
				e := live[p]
				if variant == "global-strict" && !strings.HasSuffix(e, "#") && !strings.HasSuffix(e, "/") {
					continue
				}
				if got, ok := ctx.Namespaces[p]; !ok || got != e {
					fail(viol("C13", "concurrent-consistency", "context-lacks-namespace:"+variant, "after the concurrent phase the %s context maps prefix %s to %q; the namespace manager handed it out for %q", variant, p, got, e))
					return
				}
			}
		}
		// every identifier of an acknowledged write has its internal id and finds its entity
		for _, cos := range r.ops {
			for _, co := range cos {
				if co.op.K != "batch" || co.err != nil || (co.op.M != nil && co.op.M["invalid"] == true) {
					continue
				}
				for _, e := range co.op.Ents {
					id := markerToFull(fmt.Sprint(e["id"]))
					c, err := h.Store.GetNamespacedIdentifier(id, nil)
					if err != nil {
						continue
					}
					if _, ok := h.Store.VerifIDForURI(c); !ok {
						fail(viol("C13", "identifiers", "acknowledged-identifier-without-id:concurrent", "task %d op %d: the batch writing %s was acknowledged, but the identifier has no internal id", co.task, co.idx, shortURI(id)))
						return
					}
					if ent, err := h.Store.GetEntity(c, []string{co.op.DS}, true); err != nil || ent == nil {
						fail(viol("C13", "identifiers", "acknowledged-entity-not-found:concurrent", "task %d op %d: the batch writing %s to %s was acknowledged, but a lookup by identifier finds nothing (err=%v)", co.task, co.idx, shortURI(id), co.op.DS, err))
						return
					}
				}
			}
		}
		if _, v := RawConsistency(h, "C13"); v != nil {
			fail(v)
			return
		}
		// and everything handed out survives a clean restart
		if err := h.Close(); err != nil {
			fail(viol("C13", "restart", "close-failed", "%v", err))
			return
		}
		h2, err := OpenHub(h.Dir, sc.Knobs)
		if err != nil {
			fail(viol("C13", "restart", "reopen-failed", "%v", err))
			return
		}
		defer h2.Close()
		r.Stats["restarts"]++
		if v := ObserveNS(h2, mem, cur, ":concurrent-then-restart"); v != nil {
			fail(v)
			return
		}
	}
	return
}

// checkRead compares a recorded single-call read with the model state at its position.
func (r *ConcRun) checkRead(m *Model, co *concOp) *Violation {
	prop := r.Sc.Property
	switch rd := co.readRes.(type) {
	case *readLookup:
		for _, n := range rd.scope {
			if r.tainted[n] {
				return nil
			}
		}
		if len(rd.scope) == 0 && len(r.tainted) > 0 {
			return nil
		}
		r.Stats["reads_checked"]++
		if rd.err != nil {
			return viol(prop, "atomic-read", "lookup-error", "lookup failed: %v", rd.err)
		}
		partials, anyDel, known := m.MergedLookup(markerToFull(rd.id), rd.scope)
		if !known {
			if rd.nilR || (emptyShell(rd.ent) && !rd.ent.Deleted) {
				return nil
			}
			return viol(prop, "atomic-read", "lookup:unexpected", "task %d read %s scope %v after %d commits: got %s, nothing committed yet", co.task, rd.id, rd.scope, co.readAt, rd.ent)
		}
		if rd.nilR {
			return viol(prop, "atomic-read", "lookup:missing", "task %d read %s scope %v after %d commits: got nothing", co.task, rd.id, rd.scope, co.readAt)
		}
		if len(partials) == 0 {
			if !emptyShell(rd.ent) || rd.ent.Deleted != anyDel {
				return viol(prop, "atomic-read", "lookup:partial-state", "task %d read %s scope %v after %d commits: got %s, all versions deleted", co.task, rd.id, rd.scope, co.readAt, rd.ent)
			}
			return nil
		}
		var ep, er, gp, gr map[string][]string
		ep, er = mergeExpected(partials)
		gp, gr = mergeExpected([]*CanonEnt{rd.ent})
		if js(ep) != js(gp) || js(er) != js(gr) || rd.ent.Deleted {
			return viol(prop, "atomic-read", "lookup:partial-state", "task %d read %s scope %v after %d commits: got %s, serial state has props %s refs %s", co.task, rd.id, rd.scope, co.readAt, rd.ent, js(ep), js(er))
		}
	case *readList:
		if r.tainted[rd.ds] || m.DS[rd.ds] == nil {
			return nil
		}
		r.Stats["reads_checked"]++
		if rd.err != nil {
			return viol(prop, "atomic-read", "list-error", "listing failed: %v", rd.err)
		}
		d := m.DS[rd.ds]
		for _, e := range rd.ents {
			found := false
			for id := range d.Latest {
				if d.LatestOf(id).String() == e {
					found = true
					break
				}
			}
			if !found {
				return viol(prop, "atomic-read", "list:partial-state", "task %d listing of %s after %d commits contains %s which is not the latest version of any entity at that point", co.task, rd.ds, co.readAt, e)
			}
		}
		if co.op.Limit == 0 && len(rd.ents) != len(d.Latest) {
			return viol(prop, "atomic-read", "list:partial-state", "task %d listing of %s after %d commits has %d entities, serial state has %d", co.task, rd.ds, co.readAt, len(rd.ents), len(d.Latest))
		}
	case *readTok:
		if r.tainted[rd.ds] || m.DS[rd.ds] == nil {
			return nil
		}
		r.Stats["reads_checked"]++
		if rd.err != nil {
			return viol(prop, "reader", "error", "GetChanges failed: %v", rd.err)
		}
		fr := r.readers[co.task]
		if fr == nil {
			fr = &FeedReader{DS: rd.ds, Latest: rd.latest, TokenIsIndex: true, Compacting: prop == "C12"}
			r.readers[co.task] = fr
		}
		fr.Token = rd.token
		if v := fr.Verify(m.DS[rd.ds], rd.ents, rd.next, rd.limit); v != nil {
			v.Message = fmt.Sprintf("task %d page after %d commits: %s", co.task, co.readAt, v.Message)
			return v
		}
	case *readScan:
		d := m.DS[rd.ds]
		if d == nil {
			return nil
		}
		r.Stats["reads_checked"]++
		dir := "forward"
		if rd.reverse {
			dir = "reverse"
		}
		if rd.err != nil {
			return viol(prop, "atomic-read", "scan-error:"+dir, "task %d: reading the whole change feed of %s (%s) while a compaction / writers were active failed: %v", co.task, rd.ds, dir, rd.err)
		}
		got := append([]string(nil), rd.ents...)
		if rd.reverse {
			for i, j := 0, len(got)-1; i < j; i, j = i+1, j-1 {
				got[i], got[j] = got[j], got[i]
			}
		}
		// the feed as of the start of the read, minus a subset of the versions identical to their predecessor
		rem := d.removable()
		gi := 0
		for i, v := range d.Versions {
			if gi < len(got) && got[gi] == v.Str {
				gi++
				continue
			}
			if !rem[i] {
				return viol(prop, "atomic-read", "scan-differs:"+dir, "task %d: the change feed of %s read %s after %d commits lacks entry %d (%s), which is no duplicate of its predecessor; got %d of %d entries", co.task, rd.ds, dir, co.readAt, i, clip(v.Str), len(got), len(d.Versions))
			}
		}
		if gi < len(got) {
			return viol(prop, "atomic-read", "scan-differs:"+dir, "task %d: the change feed of %s read %s after %d commits has an entry the feed of that instant does not have: %s", co.task, rd.ds, dir, co.readAt, clip(got[gi]))
		}
	case *readFeed:
		if r.tainted[rd.ds] || m.DS[rd.ds] == nil {
			return nil
		}
		r.Stats["reads_checked"]++
		if rd.err != nil {
			return viol(prop, "atomic-read", "feed-error", "feed read failed: %v", rd.err)
		}
		d := m.DS[rd.ds]
		exp := make([]string, 0, len(d.Versions))
		for _, v := range d.Versions {
			exp = append(exp, v.Str)
		}
		if co.op.Limit > 0 && len(exp) > co.op.Limit {
			exp = exp[:co.op.Limit]
		}
		if i := firstDiff(exp, rd.ents); i >= 0 {
			return viol(prop, "atomic-read", "feed:partial-state", "task %d feed page of %s after %d commits differs at %d: got %s want %s (got %d want %d entries)", co.task, rd.ds, co.readAt, i, at(rd.ents, i), at(exp, i), len(rd.ents), len(exp))
		}
	}
	return nil
}

// raceSites extracts the two call sites of a lockset race description for signatures.
func raceSites(r string) string {
	i := strings.Index(r, ": ")
	if i < 0 {
		return r
	}
	parts := strings.Split(r[i+2:], " / ")
	sort.Strings(parts)
	return strings.Join(parts, "/")
}

// checkDeletedStayHidden (profile C07c): clients delete different datasets at the same time while others write to
// the datasets that stay. Afterwards, after a restart and after garbage collection nothing of a deleted dataset
// may be visible, scoped or unscoped, and the datasets that stay hold exactly their acknowledged writes.
func (r *ConcRun) checkDeletedStayHidden(m *Model) *Violation {
	sc, h := r.Sc, r.H
	for _, cos := range r.ops {
		for _, co := range cos {
			if co.op.K == "deleteDataset" && co.err != nil {
				return viol("C07", "write", "mgmt-op-rejected:concurrent", "DeleteDataset(%s) failed while other clients deleted other datasets: %v", co.op.DS, co.err)
			}
			if isWrite(co.op.K) && co.err != nil {
				return viol("C07", "write", "write-rejected:concurrent", "task %d op %d (%s) failed: %v", co.task, co.idx, co.op.K, co.err)
			}
		}
	}
	for _, co := range r.commitOf {
		switch co.op.K {
		case "batch":
			m.Batch(co.op.DS, co.op.Ents)
		case "txn":
			for _, p := range co.op.Parts {
				m.Batch(p.DS, p.Ents)
			}
		}
	}
	deletedIDs := map[uint32]string{}
	for _, cos := range r.ops {
		for _, co := range cos {
			if co.op.K == "deleteDataset" {
				m.Drop(co.op.DS)
			}
			if co.op.K == "renameDataset" && co.err == nil {
				m.Rename(co.op.DS, co.op.DS2)
			}
		}
	}
	pool, preds := collectNames(sc)
	check := func(hub *Hub, when string) *Violation {
		gone := hub.Store.VerifDeletedDatasets()
		for id, name := range deletedIDs {
			if !gone[id] {
				return viol("C07", "deleted-set", "deleted-dataset-not-recorded:"+when, "%s: dataset %s (internal id %d) was deleted, but the set of deleted datasets is %v: its data is visible to every unscoped read and is never collected", when, name, id, gone)
			}
		}
		var have []string
		for _, n := range hub.Store.VerifDatasetNames() {
			if n != "core.Dataset" {
				have = append(have, n)
			}
		}
		sort.Strings(have)
		if strings.Join(have, ",") != strings.Join(m.Names(), ",") {
			return viol("C07", "state", "dataset-list:"+when, "%s: datasets are %v, expected %v", when, have, m.Names())
		}
		for _, id := range pool {
			if v := CheckMergedLookup(hub, m, id, nil); v != nil {
				v.Property, v.Signature = "C07", "concurrent-deletes:"+when+":"+v.Signature
				v.Message = when + ": " + v.Message
				return v
			}
		}
		for _, n := range m.Names() {
			if v := CheckLatest(hub, m, n, pool, []int{2}); v != nil {
				v.Property, v.Signature = "C07", "concurrent-deletes:"+when+":"+v.Signature
				return v
			}
			if v := CheckFeed(hub, m, n, nil); v != nil {
				v.Property, v.Signature = "C07", "concurrent-deletes:"+when+":"+v.Signature
				return v
			}
		}
		rv, _ := CheckRelations(hub, m, pool, preds, [][]string{nil}, nil, func(x *Violation) bool { return !IsKnown(x) })
		if rv != nil {
			rv.Property, rv.Signature = "C07", "concurrent-deletes:"+when+":"+rv.Signature
			return rv
		}
		return nil
	}
	for id, name := range r.victimIDs {
		deletedIDs[id] = name
	}
	if v := check(h, "after-the-deletes"); v != nil {
		return v
	}
	if err := h.Close(); err != nil {
		return viol("C07", "restart", "close-failed", "%v", err)
	}
	h2, err := OpenHub(h.Dir, sc.Knobs)
	if err != nil {
		return viol("C07", "restart", "reopen-failed", "%v", err)
	}
	r.H = h2
	defer h2.Close()
	r.Stats["restarts"]++
	if v := check(h2, "after-restart"); v != nil {
		return v
	}
	if err := server.NewGarbageCollector(h2.Store, h2.Env).Cleandeleted(); err != nil {
		return viol("C07", "gc", "gc-failed", "%v", err)
	}
	r.Stats["gc_runs"]++
	ids := map[uint32]bool{}
	for id := range deletedIDs {
		ids[id] = true
	}
	if v := rawNoDatasetKeys(h2, ids, "C07"); v != nil {
		v.Signature = "concurrent-deletes:" + v.Signature
		return v
	}
	return check(h2, "after-gc")
}

// genC07c: two or three clients delete different datasets at the same time while writers work on the datasets
// that stay; all datasets share entity ids and reference each other's entities.
func genC07c(g *G, sc *Scenario, tier string) {
	c := g.baseStoreCfg(tier)
	c.PNested = 0
	c.MaxBatch = g.Range(1, 3)
	c.Pool = poolNames(MkE, "e", g.Range(2, 4))
	keep := []string{"dsA", "dsB"}[:g.Range(1, 2)]
	victims := []string{"vX", "vY", "vZ"}[:g.Range(2, 3)]
	sc.Datasets = append(append([]string(nil), keep...), victims...)
	c.Datasets = sc.Datasets
	m := NewModel()
	for _, d := range sc.Datasets {
		m.Create(d)
	}
	for _, d := range sc.Datasets {
		for k := g.Range(1, 2); k > 0; k-- {
			ents := g.batch(c, m, d)
			m.Batch(d, ents)
			sc.Ops = append(sc.Ops, Op{K: "batch", DS: d, Ents: ents})
		}
	}
	if g.P(0.5) {
		// one client deletes two datasets one after the other, the others one each
		sc.Tasks = append(sc.Tasks, []Op{{K: "deleteDataset", DS: victims[0]}, {K: "deleteDataset", DS: victims[1]}})
		for _, v := range victims[2:] {
			sc.Tasks = append(sc.Tasks, []Op{{K: "deleteDataset", DS: v}})
		}
	} else {
		for _, v := range victims {
			sc.Tasks = append(sc.Tasks, []Op{{K: "deleteDataset", DS: v}})
		}
	}
	if g.P(0.4) {
		// a dataset was deleted earlier, and the garbage collector makes its pass while the clients delete
		sc.Datasets = append(sc.Datasets, "vOld")
		sc.Ops = append(sc.Ops, Op{K: "batch", DS: "vOld", Ents: []Ent{g.freshEnt(c, g.Pick(c.Pool))}}, Op{K: "deleteDataset", DS: "vOld"})
		sc.Tasks = append(sc.Tasks, []Op{{K: "gc"}})
	}
	if g.P(0.3) {
		// a dataset that stays is renamed while another client declares its public namespaces; the writers use the
		// other datasets that stay
		sc.Datasets = append(sc.Datasets, "dsK")
		m.Create("dsK")
		sc.Tasks = append(sc.Tasks, []Op{{K: "renameDataset", DS: keep[0], DS2: "dsR"}}, []Op{{K: "publicNS", DS: keep[0]}})
		keep = append(append([]string{}, keep[1:]...), "dsK")
	}
	if g.P(0.4) {
		// another client declares the public namespaces of a dataset that is being deleted
		sc.Tasks = append(sc.Tasks, []Op{{K: "publicNS", DS: g.Pick(victims)}})
	}
	c.Datasets = keep
	for w := g.Range(1, 2); w > 0; w-- {
		var ops []Op
		for i := g.Range(1, 3); i > 0; i-- {
			ds := g.Pick(keep)
			ents := g.batch(c, m, ds)
			uniqueMark(ents, fmt.Sprintf("w%d.%d", w, i))
			ops = append(ops, Op{K: "batch", DS: ds, Ents: ents})
		}
		sc.Tasks = append(sc.Tasks, ops)
	}
	sc.Knobs["schedSeed"] = int64(g.r.Uint64() >> 1)
	sc.Knobs["preemptPct"] = int64(g.PickInt([]int{20, 50, 80}))
}

// checkCatalogueLatest: core.Dataset is a dataset like any other: whatever ran (compaction of the catalogue itself
// included), the listing shows for every entry the newest version its change feed holds, and so does the
// latest-only feed.
func checkCatalogueLatest(h *Hub) *Violation {
	core := h.Dataset("core.Dataset")
	if core == nil {
		return nil
	}
	ch, err := core.GetChanges(0, 0, false)
	if err != nil {
		return viol("C12", "compaction", "catalogue:feed-error", "GetChanges(core.Dataset): %v", err)
	}
	newest := map[string]string{}
	for _, e := range ch.Entities {
		c := h.Canon(e)
		newest[c.ID] = c.String()
	}
	res, err := core.GetEntities("", 0)
	if err != nil {
		return viol("C12", "compaction", "catalogue:listing-error", "GetEntities(core.Dataset): %v", err)
	}
	for _, e := range res.Entities {
		c := h.Canon(e)
		if n, ok := newest[c.ID]; ok && n != c.String() {
			return viol("C12", "compaction", "catalogue:latest-view-is-not-the-newest-version", "core.Dataset lists %s although the newest version in its change feed is %s", c.String(), n)
		}
	}
	lt, err := core.GetChanges(0, 0, true)
	if err != nil {
		return viol("C12", "compaction", "catalogue:feed-error", "GetChanges(core.Dataset, latest only): %v", err)
	}
	for _, e := range lt.Entities {
		c := h.Canon(e)
		if n, ok := newest[c.ID]; ok && n != c.String() {
			return viol("C12", "compaction", "catalogue:latest-only-feed-is-not-the-newest-version", "the latest-only feed of core.Dataset has %s although the newest version in its change feed is %s", c.String(), n)
		}
	}
	return nil
}
