package verifsim

import (
	"encoding/json"
	"fmt"
	"os"
	"strings"
	"time"

	"github.com/mimiro-io/datahub/internal/security"
)

// Concurrent security-management executor (profile C16c): several administrators (automation registering
// clients in parallel) register and delete clients and set and delete ACLs through the real router at the same
// time; their requests are tasks of the cooperative scheduler and interleave at the points between the in-memory
// update and the file write. At quiescence the registrations and ACLs the API reports must be explained by the
// requests (a client that was only ever registered exists, the single ACL set for a client is its ACL) and must
// be identical after every service object has been re-created on the same directories.

func genC16c(g *G, sc *Scenario, tier string) {
	ids := []string{"ca", "cb", "cc", "cd"}[:g.Range(2, 4)]
	res := []string{"/datasets/a", "/datasets/a*", "/datasets/*", "/jobs*", "/*", "/datasets/b", "/query"}
	acl := func() []any {
		var l []any
		for k := g.Range(1, 2); k > 0; k-- {
			l = append(l, map[string]any{"Resource": g.Pick(res), "Action": g.Pick([]string{"read", "write"}), "Deny": g.P(0.25)})
		}
		return l
	}
	if g.P(0.35) {
		// a client's requests race an administrator who replaces the client's ACL back and forth: every request is
		// decided by one of the lists that were in force while it was under way, never by a mixture of two
		sc.Knobs["raceRequests"] = 1
		lists := [][]any{}
		for k := 0; k < 2; k++ {
			var l []any
			for j := g.Range(1, 3); j > 0; j-- {
				l = append(l, map[string]any{"Resource": g.Pick(res), "Action": g.Pick([]string{"read", "read", "write"}), "Deny": g.P(0.35)})
			}
			lists = append(lists, l)
		}
		if g.P(0.4) {
			// the pair that a check looking at the list twice gets wrong: neither list allows /datasets/a/...
			lists[0] = []any{map[string]any{"Resource": "/jobs*", "Action": "read", "Deny": false}}
			lists[1] = []any{map[string]any{"Resource": "/datasets/*", "Action": "read", "Deny": false}, map[string]any{"Resource": "/datasets/a*", "Action": "read", "Deny": true}}
		}
		sc.Ops = append(sc.Ops, Op{K: "regClient", S: "cx"}, Op{K: "setACL", S: "cx", A: lists[0]})
		var flips []Op
		for k := g.Range(2, 5); k > 0; k-- {
			flips = append(flips, Op{K: "setACL", S: "cx", A: lists[(len(flips)+1)%2]})
		}
		sc.Tasks = append(sc.Tasks, flips)
		paths := []string{"/datasets/a/entities", "/datasets/a/changes", "/datasets/b/entities", "/jobs", "/datasets/a"}
		for t := g.Range(1, 3); t > 0; t-- {
			var ops []Op
			for k := g.Range(2, 5); k > 0; k-- {
				ops = append(ops, Op{K: "request", S: "cx", DS: g.Pick(paths)})
			}
			sc.Tasks = append(sc.Tasks, ops)
		}
		sc.Knobs["schedSeed"] = int64(g.r.Uint64() >> 1)
		sc.Knobs["preemptPct"] = int64(g.PickInt([]int{20, 50, 80}))
		return
	}
	// state before the concurrent phase
	for _, id := range ids {
		if g.P(0.4) {
			sc.Ops = append(sc.Ops, Op{K: "regClient", S: id})
			if g.P(0.5) {
				sc.Ops = append(sc.Ops, Op{K: "setACL", S: id, A: acl()})
			}
		}
	}
	nt := g.Range(2, 3)
	for t := 0; t < nt; t++ {
		var ops []Op
		for k := g.Range(1, 3); k > 0; k-- {
			id := g.Pick(ids)
			switch x := g.r.Float64(); {
			case x < 0.45:
				ops = append(ops, Op{K: "regClient", S: id})
			case x < 0.80:
				ops = append(ops, Op{K: "setACL", S: id, A: acl()})
			case x < 0.90:
				ops = append(ops, Op{K: "delACL", S: id})
			default:
				ops = append(ops, Op{K: "delClient", S: id})
			}
		}
		sc.Tasks = append(sc.Tasks, ops)
	}
	sc.Knobs["schedSeed"] = int64(g.r.Uint64() >> 1)
	sc.Knobs["preemptPct"] = int64(g.PickInt([]int{20, 50, 80}))
}

func RunSecConcScenario(sc *Scenario) (vd *Verdict) {
	vd = &Verdict{Verdict: "ok", Property: sc.Property, Profile: sc.Profile, Seed: sc.Seed}
	r := &SecRun{Sc: sc, Stats: map[string]int64{}, Start: time.Now(), acl: map[string][]aclEntry{}, clients: map[string]bool{}, cells: map[string]bool{},
		tokens: map[string]string{}, tokenAt: map[string]time.Time{}}
	r.nodeKey = loadKey(FixtureDir() + "/node_key")
	r.c1Key = loadKey(FixtureDir() + "/client1_key")
	if r.nodeKey == nil || r.c1Key == nil {
		vd.Verdict, vd.Message = "error", "key fixtures missing (run bin/setup.sh)"
		return
	}
	r.dir, r.secDir = NewDir("sechub"), NewDir("sec")
	h, err := OpenWebHub(r.dir, r.secDir, sc.Knobs, true)
	if err != nil {
		vd.Verdict, vd.Message = "error", err.Error()
		return
	}
	r.H = h
	defer func() {
		hooks.sched = nil
		_ = r.H.Close()
		os.RemoveAll(r.dir)
		os.RemoveAll(r.secDir)
	}()
	fail := func(v *Violation) {
		vd.Verdict = "violation"
		vd.Property, vd.Oracle, vd.Signature, vd.Message = "C16", v.Oracle, v.Signature, v.Message
	}
	adm, err := r.adminToken()
	if err != nil {
		vd.Verdict, vd.Message = "error", err.Error()
		return
	}
	auth := map[string]string{"Authorization": "Bearer " + adm}
	pub, _ := security.ExportRsaPublicKeyAsPem(&r.c1Key.PublicKey)
	// profile variant "raceRequests": versions of client cx's ACL (0 = the one set before the concurrent phase), how
	// many replacements have been started / have been answered, and what each request of the client saw
	cxVersions := [][]aclEntry{nil} // version 0: no ACL at all
	cxStarted, cxDone := 0, 0
	cxTok := ""
	type reqRec struct {
		path     string
		code     int
		from, to int
	}
	var reqs []*reqRec
	toEntries := func(a []any) []aclEntry {
		b, _ := json.Marshal(a)
		var l []aclEntry
		_ = json.Unmarshal(b, &l)
		return l
	}
	do := func(op *Op) int {
		r.Stats["requests"]++
		if op.K == "request" {
			rec := &reqRec{path: op.DS, from: cxDone}
			reqs = append(reqs, rec)
			code, _ := r.H.Do("GET", op.DS, map[string]string{"Authorization": "Bearer " + cxTok}, nil)
			rec.code, rec.to = code, cxStarted
			r.Stats["client_requests_during_acl_changes"]++
			return 200
		}
		if op.K == "setACL" && op.S == "cx" && sc.Knob("raceRequests", 0) == 1 {
			cxVersions = append(cxVersions, toEntries(op.A))
			cxStarted = len(cxVersions) - 1
			mine := cxStarted
			defer func() { cxDone = mine }()
		}
		switch op.K {
		case "regClient":
			b, _ := json.Marshal(security.ClientInfo{ClientID: op.S, PublicKey: []byte(pub)})
			code, _ := r.H.Do("POST", "/security/clients", auth, b)
			return code
		case "delClient":
			b, _ := json.Marshal(security.ClientInfo{ClientID: op.S, Deleted: true})
			code, _ := r.H.Do("POST", "/security/clients", auth, b)
			return code
		case "setACL":
			b, _ := json.Marshal(op.A)
			code, _ := r.H.Do("POST", "/security/clients/"+op.S+"/acl", auth, b)
			return code
		case "delACL":
			code, _ := r.H.Do("DELETE", "/security/clients/"+op.S+"/acl", auth, nil)
			return code
		}
		return 0
	}
	// what the requests imply for a client nobody contends for
	type hist struct {
		regs, dels, sets, aclDels int
		lastACL                   []any
	}
	hs := map[string]*hist{}
	note := func(op *Op) {
		x := hs[op.S]
		if x == nil {
			x = &hist{}
			hs[op.S] = x
		}
		r.clients[op.S] = true
		switch op.K {
		case "regClient":
			x.regs++
		case "delClient":
			x.dels++
		case "setACL":
			x.sets++
			x.lastACL = op.A
		case "delACL":
			x.aclDels++
		}
	}
	for i := range sc.Ops {
		time.Sleep(time.Nanosecond)
		if code := do(&sc.Ops[i]); code != 200 {
			vd.Verdict, vd.Message = "error", fmt.Sprintf("setup request %s %s answered %d", sc.Ops[i].K, sc.Ops[i].S, code)
			return
		}
	}
	// the ACLs set before the concurrent phase only matter if nobody sets them again
	pre := map[string][]any{}
	for i := range sc.Ops {
		if sc.Ops[i].K == "setACL" {
			pre[sc.Ops[i].S] = sc.Ops[i].A
		}
		r.clients[sc.Ops[i].S] = true
	}
	preReg := map[string]bool{}
	for i := range sc.Ops {
		if sc.Ops[i].K == "regClient" {
			preReg[sc.Ops[i].S] = true
		}
	}
	if sc.Knob("raceRequests", 0) == 1 {
		if cxTok, err = r.clientToken("cx", r.c1Key); err != nil {
			vd.Verdict, vd.Message = "error", "login of client cx: "+err.Error()
			return
		}
	}
	s := NewSched()
	s.schedule = sc.Schedule
	if len(sc.Schedule) == 0 {
		if seed, ok := sc.Knobs["schedSeed"]; ok {
			s.gen = NewG(uint64(seed))
			s.pPreempt = float64(sc.Knob("preemptPct", 20)) / 100
		}
	}
	hooks.sched = s
	type res struct {
		op   *Op
		code int
	}
	var results []*res
	for ti := range sc.Tasks {
		ops := sc.Tasks[ti]
		var mine []*res
		for oi := range ops {
			note(&sc.Tasks[ti][oi])
			x := &res{op: &sc.Tasks[ti][oi]}
			mine = append(mine, x)
			results = append(results, x)
		}
		s.Spawn(fmt.Sprintf("T%d", ti), h.Store.VerifDB(), func() {
			for _, x := range mine {
				x.code = do(x.op)
			}
		})
	}
	s.ClientsOnly = true
	s.Run()
	hooks.sched = nil
	for k, v := range s.Stats {
		r.Stats[k] = v
	}
	defer func() {
		vd.Stats = r.Stats
		vd.TraceHash = s.TraceHash()
		vd.SimNS = int64(time.Since(r.Start))
		vd.Nontrivial = r.Stats["requests"] >= 3 && s.Stats["preemptions"] >= 1
	}()
	if len(sc.Schedule) == 0 && s.gen != nil {
		sc.Schedule = append([]int(nil), s.Chosen...)
		delete(sc.Knobs, "schedSeed")
	}
	if s.Violation != nil {
		fail(s.Violation)
		return
	}
	for _, q := range reqs {
		// (only serving beyond the lists is judged: a refusal is never more than the property allows)
		explained := q.code == 403 || q.code == 401
		var want []string
		for v := q.from; v <= q.to && v < len(cxVersions); v++ {
			ok, _ := granted(cxVersions[v], q.path, "read")
			want = append(want, fmt.Sprintf("list %d [%s]: %v", v, aclShape(cxVersions[v]), ok))
			if ok {
				explained = true
			}
		}
		r.Stats["request_decisions_checked"]++
		if !explained {
			fail(viol("C16", "authorization", "decision-of-no-acl-version", "GET %s by client cx was answered %d while an administrator replaced the client's ACL; none of the lists in force during the request grants it: %s", q.path, q.code, strings.Join(want, "; ")))
			return
		}
	}
	for _, x := range results {
		if x.code != 200 {
			fail(viol("C16", "management", fmt.Sprintf("request-failed:%s:%d", x.op.K, x.code), "admin request %s %s was answered %d", x.op.K, x.op.S, x.code))
			return
		}
	}
	state := func(hub *Hub, tok string) (clients map[string]bool, acls map[string]string, err error) {
		a := map[string]string{"Authorization": "Bearer " + tok}
		code, body := hub.Do("GET", "/security/clients", a, nil)
		if code != 200 {
			return nil, nil, fmt.Errorf("get clients: %d", code)
		}
		var cl map[string]any
		_ = json.Unmarshal(body, &cl)
		clients = map[string]bool{}
		for id := range cl {
			clients[id] = true
		}
		acls = map[string]string{}
		for _, id := range sortedKeys(r.clients) {
			code, body := hub.Do("GET", "/security/clients/"+id+"/acl", a, nil)
			if code != 200 {
				return nil, nil, fmt.Errorf("get acl: %d", code)
			}
			var l []aclEntry
			_ = json.Unmarshal(body, &l)
			acls[id] = aclShape(l)
		}
		return
	}
	clients, acls, err := state(r.H, adm)
	if err != nil {
		fail(viol("C16", "harness", "invalid", "%v", err))
		return
	}
	shapeOf := func(a []any) string {
		b, _ := json.Marshal(a)
		var l []aclEntry
		_ = json.Unmarshal(b, &l)
		return aclShape(l)
	}
	for _, id := range sortedKeys(r.clients) {
		x := hs[id]
		if x == nil {
			x = &hist{}
		}
		if (x.regs > 0 || preReg[id]) && x.dels == 0 && !clients[id] {
			fail(viol("C16", "management", "registered-client-missing:concurrent", "client %s was registered (and never deleted) but the hub does not list it after the concurrent requests", id))
			return
		}
		if x.dels == 0 && x.aclDels == 0 {
			want := ""
			switch {
			case x.sets == 1:
				want = shapeOf(x.lastACL)
			case x.sets == 0 && pre[id] != nil:
				want = shapeOf(pre[id])
			case x.sets == 0:
				want = ""
			default:
				continue
			}
			if acls[id] != want {
				fail(viol("C16", "management", "acl-differs:concurrent", "client %s: the only ACL set for it is [%s], the hub reports [%s] after the concurrent requests", id, want, acls[id]))
				return
			}
		}
	}
	r.Stats["quiescent_states_checked"]++
	// restart: every object re-created on the same directories
	_ = r.H.Close()
	nh, err := OpenWebHub(r.dir, r.secDir, sc.Knobs, true)
	if err != nil {
		fail(viol("C16", "persistence", "hub-does-not-restart", "%v", err))
		return
	}
	r.H = nh
	adm2, err := r.adminToken()
	if err != nil {
		fail(viol("C16", "persistence", "admin-login-after-restart", "%v", err))
		return
	}
	clients2, acls2, err := state(r.H, adm2)
	if err != nil {
		fail(viol("C16", "harness", "invalid", "%v", err))
		return
	}
	r.Stats["restarts"]++
	fmtC := func(m map[string]bool) string { return strings.Join(sortedKeys(m), ",") }
	if fmtC(clients) != fmtC(clients2) {
		fail(viol("C16", "persistence", "security-state-lost-on-restart:clients-changed:concurrent", "after concurrent management requests the hub lists clients [%s]; after a restart [%s]", fmtC(clients), fmtC(clients2)))
		return
	}
	for _, id := range sortedKeys(acls) {
		if acls[id] != acls2[id] {
			fail(viol("C16", "persistence", "security-state-lost-on-restart:acls-changed:concurrent", "after concurrent management requests client %s has ACL [%s]; after a restart [%s]", id, acls[id], acls2[id]))
			return
		}
	}
	return
}
