package verifsim

import (
	"fmt"
	"math/rand/v2"
)

// Generators for store-level histories (C01, C02, C03 and, with extra op kinds, C06, C07,
// C12, C13, C14, C19, C20). Every choice comes from one PCG stream seeded from the scenario
// seed; the result is an explicit scenario, nothing is drawn at execution time.

type G struct {
	r *rand.Rand
}

func NewG(seed uint64) *G { return &G{r: rand.New(rand.NewPCG(seed, 0x9E3779B97F4A7C15))} }

func (g *G) Intn(n int) int {
	if n <= 0 {
		return 0
	}
	return g.r.IntN(n)
}
func (g *G) Range(lo, hi int) int { return lo + g.Intn(hi-lo+1) }
func (g *G) P(p float64) bool     { return g.r.Float64() < p }
func (g *G) Pick(l []string) string {
	return l[g.Intn(len(l))]
}
func (g *G) PickInt(l []int) int { return l[g.Intn(len(l))] }

// Swarm weights of one run.
type StoreGenCfg struct {
	Datasets       []string
	Pool           []string // "<E>e0"...
	Preds          []string // "<S>p0"...
	PropKeys       []string // "<S>a0"...
	NOps           int
	MaxBatch       int
	PTxn           float64
	PRestart       float64
	PDeleted       float64
	PIdentic       float64 // rewrite the current version unchanged
	PEqLen         float64 // equal-serialised-length adversary of the current version
	PFlipDel       float64
	PRepeat        float64 // repeat an earlier element of the same batch
	PRefHeavy      float64
	PEmptyRef      float64 // chance that a reference value is an empty array
	PNested        float64
	PRead          float64 // token-carrying reader page
	Readers        int
	NoPlainObjects bool // UDA payloads: an object-valued property is a nested entity
	PInvalid       float64 // a write is first sent with an entity the store must refuse (nil reference), then again without it
}

func poolNames(mk, stem string, n int) []string {
	out := make([]string, n)
	for i := range out {
		out[i] = fmt.Sprintf("%s%s%d", mk, stem, i)
	}
	return out
}

func (g *G) baseStoreCfg(tier string) *StoreGenCfg {
	c := &StoreGenCfg{}
	nds := g.Range(1, 3)
	c.Datasets = []string{"dsA", "dsB", "dsC"}[:nds]
	c.Pool = poolNames(MkE, "e", g.Range(2, 6))
	c.Preds = poolNames(MkS, "p", g.Range(1, 3))
	c.PropKeys = poolNames(MkS, "a", g.Range(1, 3))
	c.NOps = g.Range(3, 25)
	if tier == "thorough" && g.P(0.3) {
		c.NOps = g.Range(20, 60)
	}
	c.MaxBatch = g.Range(1, 6)
	sw := func(p float64) float64 { // swarm: switch a feature off in a third of the runs
		if g.P(0.33) {
			return 0
		}
		return p
	}
	c.PTxn = sw(0.2)
	c.PRestart = sw(0.06)
	c.PDeleted = sw(0.25)
	c.PIdentic = sw(0.2)
	c.PEqLen = sw(0.2)
	c.PFlipDel = sw(0.15)
	c.PRepeat = sw(0.3)
	c.PRefHeavy = sw(0.5)
	c.PNested = sw(0.15)
	return c
}

var strAlphabet = []string{"a", "b", "c"}

func (g *G) scalar() any {
	switch g.Intn(6) {
	case 0:
		return float64(g.Intn(3))
	case 1:
		return g.P(0.5)
	case 2:
		return float64(10000 + g.Intn(3))
	case 3:
		return "v" + g.Pick(strAlphabet) + g.Pick(strAlphabet)
	default:
		return g.Pick(strAlphabet) + g.Pick(strAlphabet) + g.Pick(strAlphabet)
	}
}

func (g *G) value(c *StoreGenCfg, depth int) any {
	x := g.r.Float64()
	switch {
	case x < 0.55:
		return g.scalar()
	case x < 0.75:
		n := g.Range(0, 3)
		l := make([]any, n)
		for i := range l {
			l[i] = g.scalar()
		}
		return l
	case x < 0.75+c.PNested && depth == 0:
		ne := Ent{"id": g.Pick(c.Pool), "props": map[string]any{g.Pick(c.PropKeys): g.scalar()}, "refs": map[string]any{}}
		if g.P(0.4) {
			ne["refs"].(map[string]any)[g.Pick(c.Preds)] = g.Pick(c.Pool)
		}
		return ne
	case x < 0.95:
		return g.scalar()
	default:
		if c.NoPlainObjects {
			return g.scalar()
		}
		return map[string]any{"k": g.scalar()}
	}
}

func (g *G) refValue(c *StoreGenCfg) any {
	if c.PEmptyRef > 0 && g.P(c.PEmptyRef) {
		return []any{} // a reference with no values (valid, unusual)
	}
	if g.P(0.6) {
		return g.Pick(c.Pool)
	}
	n := g.Range(1, 3)
	l := make([]any, 0, n)
	seen := map[string]bool{}
	dups := g.P(0.15) // a reference array may name a target more than once
	for i := 0; i < n; i++ {
		t := g.Pick(c.Pool)
		if !seen[t] || dups {
			seen[t] = true
			l = append(l, t)
		}
	}
	return l
}

func (g *G) freshEnt(c *StoreGenCfg, id string) Ent {
	props := map[string]any{}
	refs := map[string]any{}
	for _, k := range c.PropKeys {
		if g.P(0.5) {
			props[k] = g.value(c, 0)
		}
	}
	pr := 0.35
	if g.P(c.PRefHeavy) {
		pr = 0.8
	}
	for _, k := range c.Preds {
		if g.P(pr) {
			refs[k] = g.refValue(c)
		}
	}
	e := Ent{"id": id, "props": props, "refs": refs}
	if g.P(c.PDeleted) {
		e["deleted"] = true
	}
	return e
}

func cloneEnt(e Ent) Ent { return normJSON(e).(map[string]any) }

// specFromCanon turns a canonical (full-URI) entity back into marker form.
func specFromCanon(c *CanonEnt) Ent {
	back := func(s string) string {
		if len(s) > len(ExE) && s[:len(ExE)] == ExE {
			return MkE + s[len(ExE):]
		}
		if len(s) > len(ExS) && s[:len(ExS)] == ExS {
			return MkS + s[len(ExS):]
		}
		return s
	}
	m := map[string]any{"id": c.ID, "props": c.Props, "refs": c.Refs}
	if c.Deleted {
		m["deleted"] = true
	}
	return mapEntity(normJSON(m).(map[string]any), back)
}

func sameLenScalar(g *G, v any) (any, bool) {
	switch t := v.(type) {
	case string:
		if len(t) == 0 {
			return nil, false
		}
		b := []byte(t)
		i := g.Intn(len(b))
		if b[i] == 'z' {
			b[i] = 'y'
		} else {
			b[i] = 'z'
		}
		return string(b), true
	case float64:
		if t >= 10000 {
			return t + 1, true
		}
		if t < 9 {
			return float64((int(t) + 1) % 10), true
		}
	case bool:
		// true <-> null have equal length but nulls are not generated; no same-length variant
	}
	return nil, false
}

// eqLenVariant derives a different entity with (very likely) the same serialised length.
func (g *G) eqLenVariant(c *StoreGenCfg, prev Ent) (Ent, bool) {
	e := cloneEnt(prev)
	props, _ := e["props"].(map[string]any)
	refs, _ := e["refs"].(map[string]any)
	if props == nil {
		props = map[string]any{}
		e["props"] = props
	}
	if refs == nil {
		refs = map[string]any{}
		e["refs"] = refs
	}
	del, _ := e["deleted"].(bool)
	mode := g.Intn(5)
	if del && g.P(0.7) {
		mode = 0
	}
	switch mode {
	case 0: // un-delete and spend the freed 15 bytes (`,"deleted":true`) on a new property
		if !del {
			return nil, false
		}
		var free []string
		for _, k := range c.PropKeys {
			if _, ok := props[k]; !ok {
				free = append(free, k)
			}
		}
		if len(free) == 0 {
			return nil, false
		}
		delete(e, "deleted")
		// entry is `,"nsN:aX":V` (10+len V) or, as first entry, `"nsN:aX":V` (9+len V)
		k := g.Pick(free)
		if len(props) > 0 {
			props[k] = []any{"abc", "zzq", float64(12345), false}[g.Intn(4)]
		} else {
			props[k] = []any{"abcd", float64(123456)}[g.Intn(2)]
		}
		return e, true
	case 1: // change one scalar property value keeping its length
		for _, k := range sortedKeys(props) {
			if nv, ok := sameLenScalar(g, props[k]); ok {
				props[k] = nv
				return e, true
			}
		}
	case 2: // rename a property key to an unused one of equal length
		for _, k := range sortedKeys(props) {
			for _, k2 := range c.PropKeys {
				if _, used := props[k2]; !used && len(k2) == len(k) {
					props[k2] = props[k]
					delete(props, k)
					return e, true
				}
			}
		}
	case 3: // retarget a single reference
		for _, k := range sortedKeys(refs) {
			if s, ok := refs[k].(string); ok {
				for _, t := range c.Pool {
					if t != s && len(t) == len(s) {
						refs[k] = t
						return e, true
					}
				}
			}
		}
	case 4: // move a reference to another predicate of equal length
		for _, k := range sortedKeys(refs) {
			for _, k2 := range c.Preds {
				if _, used := refs[k2]; !used && len(k2) == len(k) {
					refs[k2] = refs[k]
					delete(refs, k)
					return e, true
				}
			}
		}
	}
	return nil, false
}

// nextEnt produces the next version of id for dataset model d.
func (g *G) nextEnt(c *StoreGenCfg, d *DSModel, id string) Ent {
	var prev Ent
	if d != nil {
		if cur := d.LatestOf(markerToFull(id)); cur != nil {
			prev = specFromCanon(cur)
		}
	}
	if prev != nil {
		x := g.r.Float64()
		switch {
		case x < c.PIdentic:
			return cloneEnt(prev)
		case x < c.PIdentic+c.PEqLen:
			if e, ok := g.eqLenVariant(c, prev); ok {
				return e
			}
		case x < c.PIdentic+c.PEqLen+c.PFlipDel:
			e := cloneEnt(prev)
			if d, _ := e["deleted"].(bool); d {
				delete(e, "deleted")
			} else {
				e["deleted"] = true
			}
			return e
		}
	}
	return g.freshEnt(c, id)
}

func (g *G) batch(c *StoreGenCfg, m *Model, ds string) []Ent {
	n := g.Range(1, c.MaxBatch)
	scratch := m.Clone() // so that in-batch successors see in-batch predecessors
	d := scratch.DS[ds]
	out := make([]Ent, 0, n)
	for i := 0; i < n; i++ {
		var e Ent
		if len(out) > 0 && g.P(c.PRepeat) {
			j := g.Intn(len(out))
			if g.P(0.6) {
				e = cloneEnt(out[j])
			} else {
				e = g.nextEnt(c, d, out[j]["id"].(string))
			}
		} else {
			e = g.nextEnt(c, d, g.Pick(c.Pool))
		}
		out = append(out, e)
		d.Write(e)
	}
	return out
}

// GenStoreHistory generates the write part shared by the store-level profiles.
func (g *G) GenStoreHistory(c *StoreGenCfg) []Op {
	m := NewModel()
	for _, d := range c.Datasets {
		m.Create(d)
	}
	var ops []Op
	for i := 0; i < c.NOps; i++ {
		x := g.r.Float64()
		switch {
		case x < c.PRestart:
			ops = append(ops, Op{K: "restart"})
		case x < c.PRestart+c.PRead && c.Readers > 0:
			ops = append(ops, Op{K: "read", Reader: g.Intn(c.Readers), Limit: g.PickInt([]int{0, 1, 1, 2, 3, 5})})
		case x < c.PRestart+c.PRead+c.PTxn && len(c.Datasets) > 1:
			nparts := g.Range(1, len(c.Datasets))
			perm := g.r.Perm(len(c.Datasets))
			var parts []Part
			for _, pi := range perm[:nparts] {
				ds := c.Datasets[pi]
				ents := g.batch(c, m, ds)
				parts = append(parts, Part{DS: ds, Ents: ents})
				m.Batch(ds, ents)
			}
			if g.P(c.PInvalid) {
				// refused as a whole after some (or all) of its entities have been processed; the client sends it again
				bad := Op{K: "txn", M: map[string]any{"invalid": true}}
				k := g.Intn(len(parts))
				for pi, p := range parts {
					ents := append([]Ent(nil), p.Ents...)
					if pi == k {
						ents = append(ents, Ent{"id": MkE + "bad", "props": map[string]any{}, "refs": map[string]any{g.Pick(c.Preds): nil}})
					}
					bad.Parts = append(bad.Parts, Part{DS: p.DS, Ents: ents})
				}
				ops = append(ops, bad)
			}
			ops = append(ops, Op{K: "txn", Parts: parts})
		default:
			ds := g.Pick(c.Datasets)
			ents := g.batch(c, m, ds)
			m.Batch(ds, ents)
			if g.P(c.PInvalid) {
				pos := len(ents)
				if g.P(0.3) {
					pos = g.Intn(len(ents) + 1)
				}
				bad := Ent{"id": MkE + "bad", "props": map[string]any{}, "refs": map[string]any{g.Pick(c.Preds): nil}}
				be := append(append(append([]Ent(nil), ents[:pos]...), bad), ents[pos:]...)
				ops = append(ops, Op{K: "batch", DS: ds, Ents: be, M: map[string]any{"invalid": true}})
			}
			ops = append(ops, Op{K: "batch", DS: ds, Ents: ents})
		}
		if g.P(0.2) {
			ops[len(ops)-1].Sleep = int64(g.PickInt([]int{1, 2, 1000, 1000000}))
		}
	}
	return ops
}
