package verifsim

import (
	"encoding/json"
	"fmt"
	"sort"
	"strings"
)

// Namespace expansions used by generated data. Scenario files refer to them through the
// markers "<E>" (entity ids) and "<S>" (property / predicate names) so that a scenario is
// independent of the "nsN" prefix numbers a particular store hands out.
const (
	ExE = "http://data.example.org/things/"
	ExS = "http://data.example.org/schema/"
	ExT = "http://data.example.org/t/" // a third namespace: listed as public before anybody uses it (C15)
	MkE = "<E>"
	MkS = "<S>"
)

// Ent is an entity in UDA JSON shape: {"id","props","refs","deleted"} with markers in
// ids, keys and reference values.
type Ent = map[string]any

type Part struct {
	DS   string `json:"ds"`
	Ents []Ent  `json:"ents"`
}

// Op is one step of a scenario. Only the fields relevant for its kind are set.
type Op struct {
	K      string         `json:"k"`
	DS     string         `json:"ds,omitempty"`
	DS2    string         `json:"ds2,omitempty"`
	Ents   []Ent          `json:"ents,omitempty"`
	Parts  []Part         `json:"parts,omitempty"`
	Sleep  int64          `json:"sleep,omitempty"` // ns slept on the fake clock before the op
	Reader int            `json:"reader,omitempty"`
	Limit  int            `json:"limit,omitempty"`
	Latest bool           `json:"latest,omitempty"`
	Since  uint64         `json:"since,omitempty"`
	N      int            `json:"n,omitempty"`
	S      string         `json:"s,omitempty"`
	A      []any          `json:"a,omitempty"`
	Task   int            `json:"task,omitempty"`
	M      map[string]any `json:"m,omitempty"`
}

type Fault struct {
	At   string `json:"at"`   // hook point name
	Hit  int    `json:"hit"`  // n-th arrival (1-based)
	Kind string `json:"kind"` // crash | error | pause
	Arg  int64  `json:"arg,omitempty"`
}

type Scenario struct {
	Profile  string           `json:"profile"`
	Property string           `json:"property"`
	Seed     uint64           `json:"seed"`
	Tier     string           `json:"tier,omitempty"`
	Knobs    map[string]int64 `json:"knobs,omitempty"`
	Datasets []string         `json:"datasets,omitempty"`
	Ops      []Op             `json:"ops,omitempty"`
	Tasks    [][]Op           `json:"tasks,omitempty"`
	Schedule []int            `json:"schedule,omitempty"` // task index per scheduling decision; -N = advance clock N ns
	Faults   []Fault          `json:"faults,omitempty"`
	Cuts     [][2]int64       `json:"cuts,omitempty"` // WAL-prefix crashes: (op index, position within the op's WAL bytes in 1/1000; 1000 = after the op)
	Note     string           `json:"note,omitempty"`
}

func (s *Scenario) Knob(name string, def int64) int64 {
	if v, ok := s.Knobs[name]; ok {
		return v
	}
	return def
}

// Verdict is what a worker prints for every job.
type Verdict struct {
	Job        int              `json:"job"`
	Verdict    string           `json:"verdict"` // ok | violation | invalid | error
	Property   string           `json:"property,omitempty"`
	Profile    string           `json:"profile,omitempty"`
	Oracle     string           `json:"oracle,omitempty"`
	Signature  string           `json:"signature,omitempty"`
	Message    string           `json:"message,omitempty"`
	Step       int              `json:"step,omitempty"`
	Seed       uint64           `json:"seed"`
	Stats      map[string]int64 `json:"stats,omitempty"`
	TraceHash  string           `json:"trace_hash,omitempty"`
	Nontrivial bool             `json:"nontrivial"`
	SimNS      int64            `json:"sim_ns,omitempty"`
	Scenario   *Scenario        `json:"scenario,omitempty"`
}

// Violation is returned by oracles.
type Violation struct {
	Property  string
	Oracle    string
	Signature string
	Message   string
}

func (v *Violation) Error() string {
	return fmt.Sprintf("%s/%s [%s]: %s", v.Property, v.Oracle, v.Signature, v.Message)
}

func viol(prop, oracle, sig, format string, args ...any) *Violation {
	return &Violation{Property: prop, Oracle: oracle, Signature: sig, Message: fmt.Sprintf(format, args...)}
}

// ---------------------------------------------------------------------------------------
// marker resolution and canonical form

// mapMarkers walks a JSON value in entity position and rewrites markers / CURIE prefixes in
// the id, in property and reference keys, in reference values and in nested entities.
// fn maps a single identifier string to its replacement.
func mapEntity(e map[string]any, fn func(string) string) map[string]any {
	out := make(map[string]any, len(e))
	for _, k := range sortedKeys(e) {
		v := e[k]
		switch k {
		case "id":
			if s, ok := v.(string); ok {
				out[k] = fn(s)
			} else {
				out[k] = v
			}
		case "props":
			if m, ok := v.(map[string]any); ok {
				pm := make(map[string]any, len(m))
				for _, pk := range sortedKeys(m) {
					pm[fn(pk)] = mapValue(m[pk], fn)
				}
				out[k] = pm
			} else {
				out[k] = v
			}
		case "refs":
			if m, ok := v.(map[string]any); ok {
				rm := make(map[string]any, len(m))
				for _, rk := range sortedKeys(m) {
					rm[fn(rk)] = mapRef(m[rk], fn)
				}
				out[k] = rm
			} else {
				out[k] = v
			}
		default:
			out[k] = v
		}
	}
	return out
}

func mapRef(v any, fn func(string) string) any {
	switch t := v.(type) {
	case string:
		return fn(t)
	case []any:
		o := make([]any, len(t))
		for i, x := range t {
			o[i] = mapRef(x, fn)
		}
		return o
	case []string:
		o := make([]any, len(t))
		for i, x := range t {
			o[i] = fn(x)
		}
		return o
	}
	return v
}

func looksLikeEntity(m map[string]any) bool {
	if _, ok := m["id"]; !ok {
		return false
	}
	_, p := m["props"]
	_, r := m["refs"]
	return p || r
}

// mapValue handles property values: scalars are kept verbatim; nested entities are rewritten.
func mapValue(v any, fn func(string) string) any {
	switch t := v.(type) {
	case map[string]any:
		if looksLikeEntity(t) {
			return mapEntity(t, fn)
		}
		o := make(map[string]any, len(t))
		for _, k := range sortedKeys(t) {
			o[k] = mapValue(t[k], fn)
		}
		return o
	case []any:
		o := make([]any, len(t))
		for i, x := range t {
			o[i] = mapValue(x, fn)
		}
		return o
	}
	return v
}

func sortedKeys[V any](m map[string]V) []string {
	ks := make([]string, 0, len(m))
	for k := range m {
		ks = append(ks, k)
	}
	sort.Strings(ks)
	return ks
}

// markerToFull replaces markers by full namespace expansions.
func markerToFull(s string) string {
	if strings.HasPrefix(s, MkE) {
		return ExE + s[len(MkE):]
	}
	if strings.HasPrefix(s, MkS) {
		return ExS + s[len(MkS):]
	}
	return s
}

// CanonEnt is the comparable normal form of one entity version: full URIs everywhere,
// internal id and recorded stamp dropped.
type CanonEnt struct {
	ID      string         `json:"id"`
	Deleted bool           `json:"deleted,omitempty"`
	Props   map[string]any `json:"props"`
	Refs    map[string]any `json:"refs"`
}

func (c *CanonEnt) String() string {
	b, _ := json.Marshal(c)
	return string(b)
}

func canonFromMap(m map[string]any) *CanonEnt {
	c := &CanonEnt{Props: map[string]any{}, Refs: map[string]any{}}
	if s, ok := m["id"].(string); ok {
		c.ID = s
	}
	if d, ok := m["deleted"].(bool); ok {
		c.Deleted = d
	}
	if p, ok := m["props"].(map[string]any); ok && p != nil {
		c.Props = p
	}
	if r, ok := m["refs"].(map[string]any); ok && r != nil {
		c.Refs = r
	}
	return c
}

// CanonSpec gives the canonical form of a scenario entity.
func CanonSpec(e Ent) *CanonEnt {
	return canonFromMap(normJSON(mapEntity(e, markerToFull)).(map[string]any))
}

// normJSON round-trips through encoding/json so that numbers are float64 and slices are []any.
func normJSON(v any) any {
	b, err := json.Marshal(v)
	if err != nil {
		panic(err)
	}
	var o any
	if err := json.Unmarshal(b, &o); err != nil {
		panic(err)
	}
	return o
}

func js(v any) string {
	b, _ := json.Marshal(v)
	return string(b)
}

// refTargets lists (predicate, target) pairs of a canonical entity.
func refTargets(c *CanonEnt) [][2]string {
	var out [][2]string
	for _, k := range sortedKeys(c.Refs) {
		switch t := c.Refs[k].(type) {
		case string:
			out = append(out, [2]string{k, t})
		case []any:
			for _, x := range t {
				if s, ok := x.(string); ok {
					out = append(out, [2]string{k, s})
				}
			}
		}
	}
	return out
}
