package verifsim

import (
	"fmt"
	"sort"
	"strings"
	"time"

	"github.com/mimiro-io/datahub/internal/server"
)

// C06: answers pinned to a past instant never change.

type relQuery struct {
	Start   string
	Pred    string
	Inverse bool
	Scope   []string
	More    []string // further start entities of the same query (outgoing queries only)
}

func (q relQuery) String() string {
	d := "out"
	if q.Inverse {
		d = "in"
	}
	if len(q.More) > 0 {
		return fmt.Sprintf("%s+%v %s %s %v", shortURI(markerToFull(q.Start)), shortAll(q.More), shortURI(markerToFull(q.Pred)), d, q.Scope)
	}
	return fmt.Sprintf("%s %s %s %v", shortURI(markerToFull(q.Start)), shortURI(markerToFull(q.Pred)), d, q.Scope)
}

type pagedQuery struct {
	Q     relQuery
	Limit int
	Full  map[relPair]int // unpaged answer at start time
	Got   map[relPair]int // union of pages so far
	Cont  []*server.RelatedFrom
	Done  bool
	At    int64
}

// Mark is a recorded instant with the current-state answers at that instant.
type Mark struct {
	T       int64
	Kind    string            // now | commit | before-commit
	Lookups map[string]string // "id|scope" -> canonical answer
	Rels    map[string]string // query -> canonical pair list
	Step    int
}

func scopeKey(sc []string) string { return strings.Join(sc, ",") }

func canonLookup(h *Hub, e *server.Entity) string {
	if e == nil {
		return "<empty>"
	}
	c := h.Canon(e)
	if emptyShell(c) && !c.Deleted {
		return "<empty>"
	}
	// merged values are compared as multisets
	p, r := mergeExpected([]*CanonEnt{c})
	return fmt.Sprintf("deleted=%v props=%s refs=%s", c.Deleted, js(p), js(r))
}

func pairsString(m map[relPair]int) string {
	var l []string
	for p, n := range m {
		l = append(l, fmt.Sprintf("%s->%s x%d", shortURI(p[0]), shortURI(p[1]), n))
	}
	sort.Strings(l)
	return strings.Join(l, " ")
}

func (r *SeqRun) timeQueries() []relQuery {
	var qs []relQuery
	scopes := [][]string{nil}
	for _, n := range r.M.Names() {
		scopes = append(scopes, []string{n})
	}
	for _, s := range r.Pool {
		for _, p := range append([]string{"*"}, r.Preds...) {
			for _, inv := range []bool{false, true} {
				for _, sc := range scopes {
					qs = append(qs, relQuery{Start: s, Pred: p, Inverse: inv, Scope: sc})
				}
			}
		}
	}
	return qs
}

// currentAnswers asks every current-state question (as the public API does, at "now").
func (r *SeqRun) currentAnswers() (lookups, rels map[string]string, v *Violation) {
	h := r.H
	lookups, rels = map[string]string{}, map[string]string{}
	scopes := [][]string{nil}
	for _, n := range r.M.Names() {
		scopes = append(scopes, []string{n})
	}
	for _, id := range r.Pool {
		for _, sc := range scopes {
			e, err := h.Store.GetEntity(h.curie(id), sc, true)
			if err != nil {
				return nil, nil, viol("C06", "history", "lookup-error", "lookup %s: %v", id, err)
			}
			lookups[id+"|"+scopeKey(sc)] = canonLookup(h, e)
		}
	}
	for _, q := range r.timeQueries() {
		res, err := queryRelated(h, q.Start, q.Pred, q.Inverse, q.Scope, 0)
		if err != nil {
			return nil, nil, viol("C06", "history", "query-error", "query %s: %v", q, err)
		}
		g, _ := relSet(h, res.Relations)
		rels[q.String()] = pairsString(g)
	}
	r.Stats["queries"] += int64(len(rels) + len(lookups))
	return
}

// asOfAnswers asks the same questions pinned to instant t.
func (r *SeqRun) asOfAnswers(t int64) (lookups, rels map[string]string, v *Violation) {
	h := r.H
	lookups, rels = map[string]string{}, map[string]string{}
	scopes := [][]string{nil}
	for _, n := range r.M.Names() {
		scopes = append(scopes, []string{n})
	}
	for _, id := range r.Pool {
		iid, ok := h.Store.VerifIDForURI(h.curie(id))
		for _, sc := range scopes {
			key := id + "|" + scopeKey(sc)
			if !ok {
				lookups[key] = "<empty>"
				continue
			}
			e, err := h.Store.GetEntityAtPointInTimeWithInternalID(iid, t, h.Store.DatasetsToInternalIDs(sc), true)
			if err != nil {
				return nil, nil, viol("C06", "history", "lookup-error", "as-of lookup %s: %v", id, err)
			}
			lookups[key] = canonLookup(h, e)
		}
	}
	for _, q := range r.timeQueries() {
		p := q.Pred
		if p != "*" {
			p = h.curie(p)
		}
		from, err := h.Store.ToRelatedFrom([]string{h.curie(q.Start)}, p, q.Inverse, q.Scope, t)
		if err != nil {
			if strings.Contains(err.Error(), "could not load predicate id") {
				rels[q.String()] = ""
				continue
			}
			return nil, nil, viol("C06", "history", "query-error", "as-of query %s: %v", q, err)
		}
		if len(from) == 0 || from[0] == nil {
			rels[q.String()] = ""
			continue
		}
		res, err := h.Store.GetManyRelatedEntitiesAtTime(from, 0, true)
		if err != nil {
			return nil, nil, viol("C06", "history", "query-error", "as-of query %s: %v", q, err)
		}
		g, _ := relSet(h, res.Relations)
		rels[q.String()] = pairsString(g)
	}
	r.Stats["queries"] += int64(len(rels) + len(lookups))
	return
}

func (r *SeqRun) takeMark(kind string, t int64, lookups, rels map[string]string) {
	r.Marks = append(r.Marks, &Mark{T: t, Kind: kind, Lookups: lookups, Rels: rels, Step: r.Step})
	r.Stats["marks_"+kind]++
}

// recheckMarks compares every recorded instant with the as-of answers now.
func (r *SeqRun) recheckMarks() *Violation {
	for _, mk := range r.Marks {
		l, q, v := r.asOfAnswers(mk.T)
		if v != nil {
			return v
		}
		for k, want := range mk.Lookups {
			if got, ok := l[k]; ok && got != want {
				return viol("C06", "history", "lookup-changed:"+mk.Kind, "lookup %s as of instant %d (%s, recorded at step %d) now answers %s; at that instant the current-state lookup answered %s", k, mk.T, mk.Kind, mk.Step, got, want)
			}
		}
		for k, want := range mk.Rels {
			if got, ok := q[k]; ok && got != want {
				dir := "out"
				if strings.Contains(k, " in ") {
					dir = "in"
					// incoming answers of a target whose referencing entities used several (predicate,
					// dataset) combinations are subject to the open finding KF-C03-1 and are not stable
					if rq, ok := r.queryByKey(k); ok && inverseKnownAffected(r.M, rq) {
						r.Stats["known:relations|in:extra:multi-relation-history"]++
						continue
					}
				}
				return viol("C06", "history", "query-changed:"+dir+":"+mk.Kind, "query [%s] as of instant %d (%s, recorded at step %d) now answers {%s}; at that instant the current-state query answered {%s}", k, mk.T, mk.Kind, mk.Step, got, want)
			}
		}
		r.Stats["mark_rechecks"]++
	}
	return nil
}

// startPaged begins a paged relationship query and records the unpaged answer of the same instant.
func (r *SeqRun) startPaged(q relQuery, limit int) *Violation {
	h := r.H
	p := q.Pred
	if p != "*" {
		p = h.curie(p)
	}
	at := time.Now().UnixNano()
	starts := []string{h.curie(q.Start)}
	for _, m := range q.More {
		starts = append(starts, h.curie(m))
	}
	from, err := h.Store.ToRelatedFrom(starts, p, q.Inverse, q.Scope, at)
	if err != nil || len(from) == 0 || from[0] == nil {
		return nil
	}
	full, err := h.Store.GetManyRelatedEntitiesAtTime(from, 0, true)
	if err != nil {
		return viol("C06", "paged", "query-error", "%v", err)
	}
	fg, _ := relSet(h, full.Relations)
	first, err := h.Store.GetManyRelatedEntitiesAtTime(from, limit, true)
	if err != nil {
		return viol("C06", "paged", "query-error", "%v", err)
	}
	g, _ := relSet(h, first.Relations)
	pq := &pagedQuery{Q: q, Limit: limit, Full: fg, Got: g, Cont: first.Cont, At: at, Done: len(first.Cont) == 0}
	r.Paged = append(r.Paged, pq)
	r.Stats["paged_started"]++
	return nil
}

// continuePaged follows the continuation tokens of every open paged query to the end.
func (r *SeqRun) continuePaged() *Violation {
	h := r.H
	for _, pq := range r.Paged {
		guard := 0
		for !pq.Done {
			res, err := h.Store.GetManyRelatedEntitiesAtTime(pq.Cont, pq.Limit, true)
			if err != nil {
				return viol("C06", "paged", "query-error", "%v", err)
			}
			g, _ := relSet(h, res.Relations)
			for p, n := range g {
				pq.Got[p] += n
			}
			pq.Cont = res.Cont
			pq.Done = len(res.Cont) == 0
			guard++
			if guard > 200 {
				return viol("C06", "paged", "no-termination", "paged query %s does not terminate", pq.Q)
			}
		}
		if pq.Limit > 0 && pairsString(pq.Got) != pairsString(pq.Full) {
			exp := map[relPair]bool{}
			for p := range pq.Full {
				exp[p] = true
			}
			sig := "paged-union-differs"
			dir := "out"
			if pq.Q.Inverse {
				dir = "in"
				pr := pq.Q.Pred
				if pr != "*" {
					pr = markerToFull(pr)
				}
				if multiRelationHistory(r.M, markerToFull(pq.Q.Start), pr, pq.Q.Scope, exp, pq.Got) {
					sig = "paged-union-differs:multi-relation-history"
				}
			}
			v := viol("C06", "paged", sig+":"+dir, "paged query [%s] started at instant %d with limit %d and continued after later writes returned {%s}; the unpaged answer at that instant was {%s}", pq.Q, pq.At, pq.Limit, pairsString(pq.Got), pairsString(pq.Full))
			if !IsKnown(v) {
				return v
			}
			r.Stats["known:"+v.Oracle+"|"+v.Signature]++
		}
		pq.Limit = 0 // checked
		r.Stats["paged_completed"]++
	}
	r.Paged = nil
	return nil
}

func (r *SeqRun) queryByKey(k string) (relQuery, bool) {
	for _, q := range r.timeQueries() {
		if q.String() == k {
			return q, true
		}
	}
	return relQuery{}, false
}

// inverseKnownAffected tells whether some entity has, over the history of the in-scope datasets,
// referenced the query's start entity through two or more (predicate, dataset) combinations.
func inverseKnownAffected(m *Model, q relQuery) bool {
	target := markerToFull(q.Start)
	pred := q.Pred
	if pred != "*" {
		pred = markerToFull(pred)
	}
	combos := map[string]map[string]bool{}
	for _, d := range m.inScope(q.Scope) {
		for _, ver := range d.Versions {
			for _, pt := range refTargets(ver.C) {
				if pt[1] == target && (pred == "*" || pred == pt[0]) {
					if combos[ver.C.ID] == nil {
						combos[ver.C.ID] = map[string]bool{}
					}
					combos[ver.C.ID][pt[0]+"|"+d.Name] = true
				}
			}
		}
	}
	for _, c := range combos {
		if len(c) >= 2 {
			return true
		}
	}
	return false
}
