package verifsim

import (
	"bytes"
	"errors"
	"fmt"
	"io"
	"net/http"
	"net/http/httptest"
	"sync"
)

// SimTransport is the only "network" the hubs see: requests are routed by host name to the echo
// router of a hub in the same process, and the scenario's message faults are applied on the way.
type SimTransport struct {
	mu     sync.Mutex
	hosts  map[string]http.Handler
	faults []*msgFault // consumed in order of matching
	Log    []string
	Count  map[string]int
}

type msgFault struct {
	Kind   string // truncate | readerr | drop-response | dup | chunk
	AtByte int
	Chunk  int
	Match  string // substring of the URL path; "" = any
	Nth    int    // applies to the n-th matching message (1-based), 0 = every
	From   string // replace: first occurrence of From in the response body ...
	To     string // ... becomes To (a wrongly typed JSON token)
	seen   int
}

func NewSimTransport() *SimTransport {
	return &SimTransport{hosts: map[string]http.Handler{}, Count: map[string]int{}}
}

func (t *SimTransport) Register(host string, h http.Handler) { t.hosts[host] = h }

func (t *SimTransport) AddFault(f *msgFault) { t.faults = append(t.faults, f) }

var errSimNetwork = errors.New("simulated network: connection reset")

type faultyReader struct {
	data   []byte
	pos    int
	failAt int // -1: never
	chunk  int
}

func (r *faultyReader) Read(p []byte) (int, error) {
	if r.failAt >= 0 && r.pos >= r.failAt {
		return 0, errSimNetwork
	}
	if r.pos >= len(r.data) {
		return 0, io.EOF
	}
	n := len(p)
	if r.chunk > 0 && n > r.chunk {
		n = r.chunk
	}
	if r.pos+n > len(r.data) {
		n = len(r.data) - r.pos
	}
	if r.failAt >= 0 && r.pos+n > r.failAt {
		n = r.failAt - r.pos
	}
	copy(p, r.data[r.pos:r.pos+n])
	r.pos += n
	return n, nil
}

func (r *faultyReader) Close() error { return nil }

func (t *SimTransport) RoundTrip(req *http.Request) (*http.Response, error) {
	t.mu.Lock()
	h := t.hosts[req.URL.Host]
	var active []*msgFault
	for _, f := range t.faults {
		if f.Match != "" && !bytes.Contains([]byte(req.URL.Path), []byte(f.Match)) {
			continue
		}
		f.seen++
		if f.Nth == 0 || f.seen == f.Nth {
			active = append(active, f)
		}
	}
	t.Count["messages"]++
	t.mu.Unlock()
	if h == nil {
		return nil, fmt.Errorf("simulated network: no such host %q", req.URL.Host)
	}
	var body []byte
	if req.Body != nil {
		body, _ = io.ReadAll(req.Body)
		req.Body.Close()
	}
	serve := func() *httptest.ResponseRecorder {
		r2 := httptest.NewRequest(req.Method, req.URL.RequestURI(), bytes.NewReader(body))
		r2.Header = req.Header.Clone()
		rec := httptest.NewRecorder()
		h.ServeHTTP(rec, r2)
		return rec
	}
	rec := serve()
	failAt, chunk := -1, 0
	for _, f := range active {
		t.mu.Lock()
		t.Count["fault_"+f.Kind]++
		t.mu.Unlock()
		switch f.Kind {
		case "dup":
			rec = serve() // the request is delivered twice; the sender sees the second answer
		case "drop-response":
			return nil, errSimNetwork
		case "truncate":
			b := rec.Body.Bytes()
			if f.AtByte < len(b) {
				rec.Body = bytes.NewBuffer(b[:f.AtByte])
			}
		case "replace":
			b := rec.Body.Bytes()
			if i := bytes.Index(b, []byte(f.From)); i >= 0 {
				nb := append(append(append([]byte{}, b[:i]...), []byte(f.To)...), b[i+len(f.From):]...)
				rec.Body = bytes.NewBuffer(nb)
				t.mu.Lock()
				t.Count["fault_replace_applied"]++
				t.mu.Unlock()
			}
		case "readerr":
			failAt = f.AtByte
		case "chunk":
			chunk = f.Chunk
		}
	}
	res := rec.Result()
	data := rec.Body.Bytes()
	res.Body = &faultyReader{data: data, failAt: failAt, chunk: chunk}
	res.ContentLength = -1
	res.Request = req
	return res, nil
}
