package verifsim

import (
	"regexp"
	"sync"

	"github.com/mimiro-io/datahub/internal/verifhook"
)

// simHooks is the single implementation behind internal/verifhook. Its behaviour is
// (re)configured per scenario: knobs, point counters, armed faults and, for concurrent
// profiles, the cooperative scheduler.
type simHooks struct {
	mu            sync.Mutex
	knobs         map[string]int64
	hits          map[string]int64
	onPoint       func(owner any, name string, hit int64) // called outside mu
	onFault       func(owner any, name string, hit int64) error
	onFaultOn     func(owner any, name string, subject any, hit int64) error
	onPointAlways func(name string)
	onGo          func(name string)
	onDone        func(owner any, name string)
	sched         *Sched
	// sequential profiles: modelled locks, so that a hub goroutine (lease timer, job run) that meets a lock the
	// scenario's goroutine holds waits on a condition variable, which the bubble counts as durably blocked; a
	// goroutine blocked on the real mutex would stop the fake clock for good
	held map[any]uint64
	cond *sync.Cond
}

var hooks = &simHooks{knobs: map[string]int64{}, hits: map[string]int64{}}

func init() { verifhook.Impl = hooks }

// default knob values used by every profile unless a scenario overrides them
var defaultKnobs = map[string]int64{
	"store.memTableSize": 8 << 20,
}

// ResetHooks prepares the hook layer for a new scenario.
func ResetHooks(sc *Scenario) {
	hooks.mu.Lock()
	defer hooks.mu.Unlock()
	hooks.knobs = map[string]int64{}
	for k, v := range defaultKnobs {
		hooks.knobs[k] = v
	}
	if sc != nil {
		for k, v := range sc.Knobs {
			hooks.knobs[k] = v
		}
	}
	hooks.hits = map[string]int64{}
	hooks.onPoint = nil
	hooks.onFault = nil
	hooks.onFaultOn = nil
	hooks.onPointAlways = nil
	hooks.onGo = nil
	hooks.onDone = nil
	hooks.sched = nil
	hooks.held = map[any]uint64{}
	hooks.cond = sync.NewCond(&hooks.mu)
}

func (h *simHooks) count(name string) int64 {
	h.mu.Lock()
	h.hits[name]++
	n := h.hits[name]
	h.mu.Unlock()
	return n
}

// PointHits returns a copy of the per-point arrival counters.
func PointHits() map[string]int64 {
	hooks.mu.Lock()
	defer hooks.mu.Unlock()
	out := make(map[string]int64, len(hooks.hits))
	for k, v := range hooks.hits {
		out[k] = v
	}
	return out
}

func (h *simHooks) Acquire(owner any, kind string, obj any) {
	if s := h.sched; s != nil {
		s.acquire(owner, kind, obj)
		return
	}
	if kind != "dataset.write" || h.cond == nil {
		return
	}
	me := curGid()
	h.mu.Lock()
	for {
		g, busy := h.held[obj]
		if !busy || g == me {
			break
		}
		h.cond.Wait()
	}
	h.held[obj] = me
	h.mu.Unlock()
}

func (h *simHooks) Release(owner any, kind string, obj any) {
	if s := h.sched; s != nil {
		s.release(owner, kind, obj)
		if kind == "dataset.write" && h.cond != nil {
			h.mu.Lock()
			delete(h.held, obj)
			h.mu.Unlock()
		}
		return
	}
	if kind != "dataset.write" || h.cond == nil {
		return
	}
	h.mu.Lock()
	delete(h.held, obj)
	h.cond.Broadcast()
	h.mu.Unlock()
}

func (h *simHooks) Point(owner any, name string) {
	n := h.count(name)
	if f := h.onPointAlways; f != nil {
		f(name)
	}
	if f := h.onPoint; f != nil {
		f(owner, name, n)
	}
	if s := h.sched; s != nil {
		s.point(owner, name)
	}
}

func (h *simHooks) Fault(owner any, name string) error {
	n := h.count("fault:" + name)
	if f := h.onFault; f != nil {
		return f(owner, name, n)
	}
	return nil
}

func (h *simHooks) FaultOn(owner any, name string, subject any) error {
	n := h.count(name)
	var err error
	if f := h.onFaultOn; f != nil {
		err = f(owner, name, subject, n)
	}
	if s := h.sched; s != nil {
		s.point(owner, name)
	}
	return err
}

func (h *simHooks) Go(owner any, name string) {
	h.count("go:" + name)
	if f := h.onGo; f != nil {
		f(name)
	}
	if s := h.sched; s != nil {
		s.goStart(owner, name)
	}
}

func (h *simHooks) Done(owner any, name string) {
	if f := h.onDone; f != nil {
		f(owner, name)
	}
	if s := h.sched; s != nil {
		s.goEnd(owner, name)
	}
}

func (h *simHooks) Access(owner any, obj string, write bool) {
	if s := h.sched; s != nil {
		s.access(owner, obj, write)
	}
}

func (h *simHooks) Knob(name string, def int) int {
	h.mu.Lock()
	v, ok := h.knobs[name]
	h.mu.Unlock()
	if ok {
		return int(v)
	}
	return def
}

// Known-finding patterns ("oracle|signature" regular expressions) handed to the worker by the
// driver. A violation matching one does not stop the scenario, so that it cannot mask others.
var knownPatterns []*regexp.Regexp

func SetKnown(pats []string) {
	knownPatterns = nil
	for _, p := range pats {
		if re, err := regexp.Compile("^(?:" + p + ")$"); err == nil {
			knownPatterns = append(knownPatterns, re)
		}
	}
}

func IsKnown(v *Violation) bool {
	key := v.Oracle + "|" + v.Signature
	for _, re := range knownPatterns {
		if re.MatchString(key) {
			return true
		}
	}
	return false
}
