package verifsim

import (
	"fmt"

	dsvc "github.com/mimiro-io/datahub/internal/service/dataset"
)

// C12: compaction is invisible to readers.

// ForceAppend appends a version even if it is identical to the current one (legacy duplicate).
func (d *DSModel) ForceAppend(c *CanonEnt) {
	d.Versions = append(d.Versions, MVersion{C: c, Str: c.String()})
	d.Latest[c.ID] = len(d.Versions) - 1
}

// removable marks the versions that are identical to the immediately preceding version of the
// same entity: the only ones compaction may take out of the change feed.
func (d *DSModel) removable() []bool {
	out := make([]bool, len(d.Versions))
	last := map[string]int{}
	for i, v := range d.Versions {
		if j, ok := last[v.C.ID]; ok && d.Versions[j].Str == v.Str {
			out[i] = true
		}
		last[v.C.ID] = i
	}
	return out
}

// CheckCompactedFeed verifies that the feed now equals the model feed minus a subset of the
// removable versions. On success the model is updated to the new feed.
func CheckCompactedFeed(h *Hub, m *Model, name, prop string) *Violation {
	d := m.DS[name]
	ds := h.Dataset(name)
	if ds == nil || d == nil {
		return nil
	}
	ch, err := ds.GetChanges(0, 0, false)
	if err != nil {
		return viol(prop, "compaction", "feed-error", "GetChanges(%s): %v", name, err)
	}
	got := canonList(h, ch.Entities)
	rem := d.removable()
	var kept []MVersion
	k := 0
	for i, v := range d.Versions {
		if k < len(got) && got[k] == v.Str {
			kept = append(kept, v)
			k++
			continue
		}
		if !rem[i] {
			cls := "removed-non-duplicate"
			// was it removed because it equals an older, non-adjacent version?
			for j := i - 1; j >= 0; j-- {
				if d.Versions[j].C.ID == v.C.ID && d.Versions[j].Str == v.Str {
					cls = "removed-version-equal-to-non-adjacent-older-version"
					break
				}
			}
			return viol(prop, "compaction", "feed:"+cls, "dataset %s: after compaction the feed lacks version %d (%s), which differs from its immediate predecessor; feed has %d entries, had %d", name, i, v.Str, len(got), len(d.Versions))
		}
	}
	if k != len(got) {
		return viol(prop, "compaction", "feed:unexpected-entry", "dataset %s: after compaction the feed contains %s at position %d, which is not the next stored version", name, at(got, k), k)
	}
	removed := len(d.Versions) - len(kept)
	d.Versions = kept
	d.Latest = map[string]int{}
	for i, v := range kept {
		d.Latest[v.C.ID] = i
	}
	_ = removed
	return nil
}

// Compact runs the deduplicating compaction on a dataset synchronously.
func (h *Hub) Compact(name string, flushAfter int) error {
	w := dsvc.NewCompactor(h.Store, h.Dsm, h.Env.Logger)
	return w.VerifCompact(name, flushAfter)
}

// CheckAfterCompaction: latest view, lookups, relations, latest-only feed unchanged; feed reduced
// only by removable versions.
func (r *SeqRun) CheckAfterCompaction(name string) *Violation {
	prop := r.Sc.Property
	// latest-only feed must equal the model's newest versions in feed order *before* the feed is reduced:
	// a removed duplicate that was the newest version hands "newest" to its identical predecessor
	d := r.M.DS[name]
	var expLatest []string
	for i, v := range d.Versions {
		if d.IsLatest(i) {
			expLatest = append(expLatest, v.Str)
		}
	}
	if v := CheckCompactedFeed(r.H, r.M, name, prop); v != nil {
		return v
	}
	if v := CheckLatest(r.H, r.M, name, r.Pool, []int{2}); v != nil {
		v.Property, v.Oracle = prop, "compaction"
		v.Signature = "latest-view:" + v.Signature
		return v
	}
	ds := r.H.Dataset(name)
	chL, err := ds.GetChanges(0, 0, true)
	if err != nil {
		return viol(prop, "compaction", "feed-error", "GetChanges(%s,latestOnly): %v", name, err)
	}
	gotL := canonList(r.H, chL.Entities)
	// compare as multisets of (entity -> content): the position of an entity in the latest-only feed may
	// move to its surviving identical version
	want := map[string]int{}
	for _, s := range expLatest {
		want[s]++
	}
	for _, s := range gotL {
		want[s]--
	}
	for s, n := range want {
		if n != 0 {
			return viol(prop, "compaction", "latest-only-feed", "dataset %s: latest-only feed after compaction differs in %s (count difference %d)", name, s, n)
		}
	}
	for _, id := range r.Pool {
		for _, sc := range allScopes(r.M.Names()) {
			if len(sc) == 1 && sc[0] != name {
				continue
			}
			if vv := CheckMergedLookup(r.H, r.M, id, sc); vv != nil {
				vv.Property, vv.Oracle = prop, "compaction"
				vv.Signature = "lookup:" + vv.Signature
				return vv
			}
		}
	}
	v, q := CheckRelations(r.H, r.M, r.Pool, r.Preds, allScopes(r.M.Names()), []int{2}, r.knownReporter())
	r.Stats["queries"] += int64(q)
	if v != nil {
		v.Property = prop
		v.Signature = "relations:" + v.Signature
		v.Oracle = "compaction"
		return v
	}
	if v := r.recheckMarks(); v != nil {
		v.Property, v.Oracle = prop, "compaction"
		v.Signature = "as-of:" + v.Signature
		v.Message = fmt.Sprintf("after compacting %s: %s", name, v.Message)
		return v
	}
	return nil
}
