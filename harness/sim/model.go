package verifsim

import (
	"sort"
)

// Reference model for the entity layer (DESIGN appendix C). It holds canonical values only.

type MVersion struct {
	C   *CanonEnt
	Str string // canonical JSON
}

type DSModel struct {
	Name     string
	Versions []MVersion     // the change feed, in commit order
	Latest   map[string]int // id -> index into Versions
	Deleted  bool           // dataset deleted
}

type Model struct {
	DS    map[string]*DSModel
	Order []string // creation order
}

func NewModel() *Model { return &Model{DS: map[string]*DSModel{}} }

func (m *Model) Create(name string) {
	if _, ok := m.DS[name]; ok {
		return
	}
	m.DS[name] = &DSModel{Name: name, Latest: map[string]int{}}
	m.Order = append(m.Order, name)
}

func (m *Model) Drop(name string) {
	delete(m.DS, name)
	for i, n := range m.Order {
		if n == name {
			m.Order = append(m.Order[:i:i], m.Order[i+1:]...)
			break
		}
	}
}

func (m *Model) Rename(old, nw string) {
	d := m.DS[old]
	if d == nil {
		return
	}
	delete(m.DS, old)
	d.Name = nw
	m.DS[nw] = d
	for i, n := range m.Order {
		if n == old {
			m.Order[i] = nw
		}
	}
}

func (m *Model) Names() []string {
	out := append([]string(nil), m.Order...)
	sort.Strings(out)
	return out
}

// Write applies one entity write; it reports whether a new version was stored.
func (d *DSModel) Write(e Ent) bool {
	c := CanonSpec(e)
	s := c.String()
	if i, ok := d.Latest[c.ID]; ok && d.Versions[i].Str == s {
		return false
	}
	d.Versions = append(d.Versions, MVersion{C: c, Str: s})
	d.Latest[c.ID] = len(d.Versions) - 1
	return true
}

func (m *Model) Batch(ds string, ents []Ent) (stored int) {
	d := m.DS[ds]
	for _, e := range ents {
		if d.Write(e) {
			stored++
		}
	}
	return
}

func (m *Model) Clone() *Model {
	n := NewModel()
	n.Order = append([]string(nil), m.Order...)
	for k, d := range m.DS {
		nd := &DSModel{Name: d.Name, Versions: append([]MVersion(nil), d.Versions...), Latest: map[string]int{}}
		for id, i := range d.Latest {
			nd.Latest[id] = i
		}
		n.DS[k] = nd
	}
	return n
}

func (d *DSModel) LatestOf(id string) *CanonEnt {
	if i, ok := d.Latest[id]; ok {
		return d.Versions[i].C
	}
	return nil
}

// IsLatest tells whether version index i is the newest version of its entity.
func (d *DSModel) IsLatest(i int) bool { return d.Latest[d.Versions[i].C.ID] == i }

// DistinctIDs is the number of distinct entity ids ever stored.
func (d *DSModel) DistinctIDs() int { return len(d.Latest) }

// scopeSets -------------------------------------------------------------------------------

// inScope returns the dataset models for a scope (nil / empty = every dataset).
func (m *Model) inScope(scope []string) []*DSModel {
	var out []*DSModel
	if len(scope) == 0 {
		for _, n := range m.Order {
			out = append(out, m.DS[n])
		}
		return out
	}
	for _, n := range scope {
		if d, ok := m.DS[n]; ok {
			out = append(out, d)
		}
	}
	return out
}

// MergedLookup is the expected answer of a merged lookup: the non-deleted latest versions
// in scope (partials), and whether any in-scope latest version is deleted.
func (m *Model) MergedLookup(id string, scope []string) (partials []*CanonEnt, anyDeleted bool, known bool) {
	for _, d := range m.inScope(scope) {
		if c := d.LatestOf(id); c != nil {
			known = true
			if c.Deleted {
				anyDeleted = true
			} else {
				partials = append(partials, c)
			}
		}
	}
	return
}

// Out returns the expected outgoing (predicate, target) pairs of start within scope;
// pred == "*" is the wildcard.
func (m *Model) Out(start, pred string, scope []string) map[[2]string]bool {
	res := map[[2]string]bool{}
	for _, d := range m.inScope(scope) {
		c := d.LatestOf(start)
		if c == nil || c.Deleted {
			continue
		}
		for _, pt := range refTargets(c) {
			if pred == "*" || pred == pt[0] {
				res[pt] = true
			}
		}
	}
	return res
}

// In returns the expected incoming (predicate, source) pairs of target within scope.
func (m *Model) In(target, pred string, scope []string) map[[2]string]bool {
	res := map[[2]string]bool{}
	for _, d := range m.inScope(scope) {
		for id, i := range d.Latest {
			c := d.Versions[i].C
			if c.Deleted {
				continue
			}
			for _, pt := range refTargets(c) {
				if pt[1] == target && (pred == "*" || pred == pt[0]) {
					res[[2]string{pt[0], id}] = true
				}
			}
		}
	}
	return res
}
