package verifsim

import (
	"fmt"
	"sort"
	"strings"

	"github.com/mimiro-io/datahub/internal/server"
)

// ---------------------------------------------------------------------------------------
// C01: latest view

// classifyLatestMismatch names the input class of a latest-view mismatch for signatures.
func classifyLatestMismatch(d *DSModel, id string, got *CanonEnt) string {
	i, ok := d.Latest[id]
	if !ok {
		return "unexpected-entity"
	}
	if got == nil {
		return "missing-entity"
	}
	// look for the newest older version equal to what the store shows
	gs := got.String()
	for j := i - 1; j >= 0; j-- {
		if d.Versions[j].C.ID != id {
			continue
		}
		if d.Versions[j].Str == gs {
			cls := "write-dropped"
			if d.Versions[j].C.Deleted && !d.Versions[i].C.Deleted {
				cls += ":undelete"
			} else if !d.Versions[j].C.Deleted && d.Versions[i].C.Deleted {
				cls += ":delete"
			}
			if len(d.Versions[j].Str) == len(d.Versions[i].Str) {
				cls += ":equal-length"
			}
			return cls
		}
		break
	}
	return "wrong-content"
}

func listAll(ds *server.Dataset, page int) ([]*server.Entity, error) {
	if page <= 0 {
		r, err := ds.GetEntities("", 0)
		if err != nil {
			return nil, err
		}
		return r.Entities, nil
	}
	var all []*server.Entity
	from := ""
	for guard := 0; guard < 400; guard++ { // (a dataset of these profiles has a few dozen entities at most)
		r, err := ds.GetEntities(from, page)
		if err != nil {
			return nil, err
		}
		if len(r.Entities) == 0 {
			return all, nil
		}
		all = append(all, r.Entities...)
		from = r.ContinuationToken
	}
	return nil, fmt.Errorf("paging did not terminate")
}

// CheckLatest verifies listing (single call and paged) and scoped lookups of one dataset.
func CheckLatest(h *Hub, m *Model, name string, pool []string, pages []int) *Violation {
	d := m.DS[name]
	ds := h.Dataset(name)
	if ds == nil {
		return viol("C01", "latest", "dataset-missing", "dataset %s not found", name)
	}
	for _, page := range append([]int{0}, pages...) {
		ents, err := listAll(ds, page)
		if err != nil {
			return viol("C01", "latest", "listing-error", "listing %s page=%d: %v", name, page, err)
		}
		seen := map[string]bool{}
		for _, e := range ents {
			c := h.Canon(e)
			if seen[c.ID] {
				return viol("C01", "latest", fmt.Sprintf("listing:duplicate:page=%s", pageClass(page)), "dataset %s page=%d: %s listed twice", name, page, c.ID)
			}
			seen[c.ID] = true
			exp := d.LatestOf(c.ID)
			if exp == nil || exp.String() != c.String() {
				return viol("C01", "latest", "listing:"+classifyLatestMismatch(d, c.ID, c),
					"dataset %s page=%d id %s: listed %s, last written %v", name, page, c.ID, c, exp)
			}
		}
		for id := range d.Latest {
			if !seen[id] {
				return viol("C01", "latest", "listing:missing-entity", "dataset %s page=%d: %s not listed; last written %s", name, page, id, d.LatestOf(id))
			}
		}
	}
	// scoped lookups
	for _, id := range pool {
		full := markerToFull(id)
		got, err := h.Store.GetEntity(h.curie(id), []string{name}, true)
		if err != nil {
			return viol("C01", "latest", "lookup-error", "lookup %s in %s: %v", id, name, err)
		}
		exp := d.LatestOf(full)
		if v := compareScoped(h, d, name, full, exp, got); v != nil {
			return v
		}
	}
	return nil
}

func pageClass(p int) string {
	if p == 0 {
		return "all"
	}
	return "paged"
}

func emptyShell(c *CanonEnt) bool { return len(c.Props) == 0 && len(c.Refs) == 0 }

func compareScoped(h *Hub, d *DSModel, name, full string, exp *CanonEnt, got *server.Entity) *Violation {
	if exp == nil {
		if got == nil {
			return nil
		}
		c := h.Canon(got)
		if !emptyShell(c) || c.Deleted {
			return viol("C01", "latest", "lookup:unexpected-entity", "lookup %s scoped to %s returned %s but nothing was written there", full, name, c)
		}
		return nil
	}
	if got == nil {
		return viol("C01", "latest", "lookup:missing-entity", "lookup %s scoped to %s returned nothing; last written %s", full, name, exp)
	}
	c := h.Canon(got)
	if exp.Deleted {
		// the lookup must report deleted; content is either empty or that of the deleted version
		if !c.Deleted {
			return viol("C01", "latest", "lookup:"+classifyLatestMismatch(d, full, c), "lookup %s scoped to %s: latest version is deleted but lookup returned %s", full, name, c)
		}
		if !emptyShell(c) && c.String() != exp.String() {
			return viol("C01", "latest", "lookup:wrong-content", "lookup %s scoped to %s: deleted, but content %s is not that of the last version %s", full, name, c, exp)
		}
		return nil
	}
	if c.String() != exp.String() {
		return viol("C01", "latest", "lookup:"+classifyLatestMismatch(d, full, c), "lookup %s scoped to %s returned %s, last written %s", full, name, c, exp)
	}
	return nil
}

// flattenMulti gives the multiset view of a merged value.
func flattenMulti(v any) []string {
	var out []string
	if l, ok := v.([]any); ok {
		for _, x := range l {
			out = append(out, js(x))
		}
	} else {
		out = append(out, js(v))
	}
	sort.Strings(out)
	return out
}

func mergeExpected(partials []*CanonEnt) (props, refs map[string][]string) {
	props, refs = map[string][]string{}, map[string][]string{}
	for _, p := range partials {
		for k, v := range p.Props {
			props[k] = append(props[k], flattenMulti(v)...)
		}
		for k, v := range p.Refs {
			refs[k] = append(refs[k], flattenMulti(v)...)
		}
	}
	for _, m := range []map[string][]string{props, refs} {
		for k := range m {
			sort.Strings(m[k])
		}
	}
	return
}

// CheckMergedLookup verifies an unscoped or multi-dataset lookup.
func CheckMergedLookup(h *Hub, m *Model, id string, scope []string) *Violation {
	full := markerToFull(id)
	got, err := h.Store.GetEntity(h.curie(id), scope, true)
	if err != nil {
		return viol("C01", "merge", "lookup-error", "lookup %s scope %v: %v", id, scope, err)
	}
	partials, anyDel, known := m.MergedLookup(full, scope)
	sc := "unscoped"
	if len(scope) > 0 {
		sc = "multi"
	}
	if !known {
		if got == nil {
			return nil
		}
		c := h.Canon(got)
		if !emptyShell(c) || c.Deleted {
			return viol("C01", "merge", sc+":unexpected-entity", "lookup %s scope %v returned %s but the id was never written in scope", full, scope, c)
		}
		return nil
	}
	if got == nil {
		return viol("C01", "merge", sc+":missing-entity", "lookup %s scope %v returned nothing", full, scope)
	}
	c := h.Canon(got)
	if len(partials) == 0 {
		if !emptyShell(c) || c.Deleted != anyDel {
			return viol("C01", "merge", sc+":deleted-shell", "lookup %s scope %v: every in-scope latest version is deleted, got %s", full, scope, c)
		}
		return nil
	}
	if c.Deleted {
		return viol("C01", "merge", sc+":deleted-flag", "lookup %s scope %v: %d live partial(s) but result is flagged deleted", full, scope, len(partials))
	}
	if len(partials) == 1 {
		if c.String() != partials[0].String() {
			return viol("C01", "merge", sc+":single-partial", "lookup %s scope %v returned %s, the only live version is %s", full, scope, c, partials[0])
		}
		return nil
	}
	ep, er := mergeExpected(partials)
	gp, gr := mergeExpected([]*CanonEnt{c})
	if js(ep) != js(gp) || js(er) != js(gr) {
		return viol("C01", "merge", sc+":merge-content", "lookup %s scope %v: merged props %s refs %s, expected props %s refs %s", full, scope, js(gp), js(gr), js(ep), js(er))
	}
	return nil
}

// ---------------------------------------------------------------------------------------
// C02: change feed

func canonList(h *Hub, ents []*server.Entity) []string {
	out := make([]string, len(ents))
	for i, e := range ents {
		out[i] = h.Canon(e).String()
	}
	return out
}

func firstDiff(a, b []string) int {
	for i := 0; i < len(a) && i < len(b); i++ {
		if a[i] != b[i] {
			return i
		}
	}
	if len(a) != len(b) {
		if len(a) < len(b) {
			return len(a)
		}
		return len(b)
	}
	return -1
}

func classifyFeedMismatch(exp, got []string) string {
	switch {
	case len(got) > len(exp):
		// is there an adjacent repeat in got that exp does not have?
		for i := 1; i < len(got); i++ {
			if got[i] == got[i-1] && (i >= len(exp) || exp[i] != got[i]) {
				return "extra-entry:adjacent-identical"
			}
		}
		return "extra-entry"
	case len(got) < len(exp):
		return "missing-entry"
	default:
		return "wrong-entry"
	}
}

// CheckFeed verifies the complete feed, the latest-only feed and paged reads from the start.
func CheckFeed(h *Hub, m *Model, name string, limits []int) *Violation {
	d := m.DS[name]
	ds := h.Dataset(name)
	if ds == nil {
		return viol("C02", "feed", "dataset-missing", "dataset %s not found", name)
	}
	exp := make([]string, len(d.Versions))
	var expLatest []string
	for i, v := range d.Versions {
		exp[i] = v.Str
		if d.IsLatest(i) {
			expLatest = append(expLatest, v.Str)
		}
	}
	ch, err := ds.GetChanges(0, 0, false)
	if err != nil {
		return viol("C02", "feed", "error", "GetChanges(%s): %v", name, err)
	}
	got := canonList(h, ch.Entities)
	if i := firstDiff(exp, got); i >= 0 {
		return viol("C02", "feed", "full:"+classifyFeedMismatch(exp, got), "dataset %s: feed has %d entries, %d versions were stored; first difference at %d: got %s want %s",
			name, len(got), len(exp), i, at(got, i), at(exp, i))
	}
	endToken := ch.NextToken
	// a token obtained at the end returns nothing
	ch2, err := ds.GetChanges(endToken, 0, false)
	if err != nil {
		return viol("C02", "feed", "error", "GetChanges(%s,end): %v", name, err)
	}
	if len(ch2.Entities) != 0 {
		return viol("C02", "feed", "end-token-returns-data", "dataset %s: reading from the end token %d returned %d entries", name, endToken, len(ch2.Entities))
	}
	if len(exp) > 0 && ch2.NextToken != endToken {
		return viol("C02", "feed", "end-token-moves", "dataset %s: end token %d became %d with no writes", name, endToken, ch2.NextToken)
	}
	chL, err := ds.GetChanges(0, 0, true)
	if err != nil {
		return viol("C02", "feed", "error", "GetChanges(%s,latestOnly): %v", name, err)
	}
	gotL := canonList(h, chL.Entities)
	if i := firstDiff(expLatest, gotL); i >= 0 {
		return viol("C02", "feed", "latestOnly:"+classifyFeedMismatch(expLatest, gotL), "dataset %s latest-only: got %d entries want %d; first difference at %d: got %s want %s",
			name, len(gotL), len(expLatest), i, at(gotL, i), at(expLatest, i))
	}
	for _, lim := range limits {
		if lim <= 0 {
			continue
		}
		var all []string
		since := uint64(0)
		for guard := 0; ; guard++ {
			c, err := ds.GetChanges(since, lim, false)
			if err != nil {
				return viol("C02", "feed", "error", "GetChanges(%s,%d,%d): %v", name, since, lim, err)
			}
			all = append(all, canonList(h, c.Entities)...)
			if len(c.Entities) == 0 {
				break
			}
			since = c.NextToken
			if guard > len(exp)+5 {
				return viol("C02", "feed", "paged:no-termination", "dataset %s limit %d: paging does not terminate", name, lim)
			}
		}
		if i := firstDiff(exp, all); i >= 0 {
			return viol("C02", "feed", "paged:"+classifyFeedMismatch(exp, all), "dataset %s paged with limit %d: first difference at %d: got %s want %s (got %d want %d entries)",
				name, lim, i, at(all, i), at(exp, i), len(all), len(exp))
		}
	}
	return nil
}

func at(l []string, i int) string {
	if i < 0 || i >= len(l) {
		return "<none>"
	}
	return l[i]
}

// FeedReader is a token-carrying reader whose pages are checked against the model position.
type FeedReader struct {
	DS     string
	Latest bool
	Token  uint64
	Idx    int // index into the model feed the next page must start at
	Pages  int
	// TokenIsIndex: the hub was never restarted, so sequence numbers have no gaps and a token is the index of
	// the next feed entry. Pages read while writers commit are judged against several serial states; where
	// identical versions make more than one of them fit, the token tells which one the hub read
	TokenIsIndex bool
	// Compacting: a deduplicating compaction may run between and during the pages. An entity whose newest
	// version is one of a run of identical versions is then handed out at any one position of that run (the
	// compaction moves "newest" back to the first of them)
	Compacting bool
	delivered  map[string]bool // entities handed out at a position of such a run
	passedIn   map[string]int  // entity -> page in which the reader went past the first position of its run
}

// dupRuns: for every entity whose newest version is identical to its predecessor, the positions of the
// trailing run of identical versions (the first of them included).
func (d *DSModel) dupRuns() (pos map[int]bool, first map[string]int) {
	pos, first = map[int]bool{}, map[string]int{}
	rem := d.removable()
	byEnt := map[string][]int{}
	for i, v := range d.Versions {
		byEnt[v.C.ID] = append(byEnt[v.C.ID], i)
	}
	for id, j := range d.Latest {
		if !rem[j] {
			continue
		}
		l := byEnt[id]
		k := len(l) - 1
		for k > 0 && d.Versions[l[k-1]].Str == d.Versions[j].Str {
			k--
		}
		for _, p := range l[k:] {
			pos[p] = true
		}
		first[id] = l[k]
	}
	return pos, first
}

// verifyCompacting is Verify for a latest-only reader of a dataset under compaction.
func (r *FeedReader) verifyCompacting(d *DSModel, got []string, nextToken uint64, limit int) *Violation {
	kind := "latestOnly"
	opt, first := d.dupRuns()
	delivered, passed := map[string]bool{}, map[string]int{}
	idx := r.Idx
	step := func() {
		id := d.Versions[idx].C.ID
		if f, ok := first[id]; ok && f == idx {
			if _, seen := r.passedIn[id]; !seen {
				passed[id] = r.Pages
			}
		}
		idx++
	}
	for gi, g := range got {
		for idx < len(d.Versions) {
			if d.IsLatest(idx) && !opt[idx] {
				break // has to be handed out here
			}
			if opt[idx] && d.Versions[idx].Str == g {
				break // may be handed out here
			}
			step()
		}
		if idx >= len(d.Versions) {
			return viol("C02", "reader", kind+":page:extra-entry", "reader on %s (%s) token %d limit %d at feed index %d: entry %d of the page (%s) is beyond the end of the feed (%d versions)",
				r.DS, kind, r.Token, limit, r.Idx, gi, g, len(d.Versions))
		}
		if d.Versions[idx].Str != g {
			return viol("C02", "reader", kind+":page:wrong-entry", "reader on %s (%s) token %d limit %d: entry %d of the page is %s, the next unread feed entry (index %d) is %s",
				r.DS, kind, r.Token, limit, gi, g, idx, d.Versions[idx].Str)
		}
		if opt[idx] {
			id := d.Versions[idx].C.ID
			if r.delivered[id] || delivered[id] {
				return viol("C02", "reader", kind+":page:repeated-entry", "reader on %s (%s) token %d limit %d: entry %d of the page is %s, which the reader was given before (its newest version is one of several identical ones)",
					r.DS, kind, r.Token, limit, gi, g)
			}
			delivered[id] = true
		}
		step()
	}
	if len(got) == 0 || (limit > 0 && len(got) < limit) || limit == 0 {
		for idx < len(d.Versions) {
			if d.IsLatest(idx) && !opt[idx] {
				return viol("C02", "reader", kind+":page:missing-entry", "reader on %s (%s) token %d limit %d returned %d entries and stopped at feed index %d although entry %d (%s) is unread",
					r.DS, kind, r.Token, limit, len(got), idx, idx, d.Versions[idx].Str)
			}
			step()
		}
		// the reader is at the end of the feed: it must have been given every entity
		ids := make([]string, 0, len(first))
		for id := range first {
			ids = append(ids, id)
		}
		sort.Strings(ids)
		for _, id := range ids {
			if r.delivered[id] || delivered[id] {
				continue
			}
			p, ok := r.passedIn[id]
			if !ok {
				p = passed[id]
			}
			if p < r.Pages {
				// went past the first of the identical versions in an earlier page (it was not the newest then), the
				// compaction then removed the later ones and made the first one the newest: behind the reader
				return viol("C02", "reader", kind+":follower-misses-compacted-duplicate", "reader on %s (%s) reached the end of the feed over %d pages and was never given %s: its newest version is one of several identical ones, the reader had passed the first of them (index %d, page %d) when the compaction removed the others",
					r.DS, kind, r.Pages+1, shortURI(id), first[id], p)
			}
			return viol("C02", "reader", kind+":page:missing-compacted-duplicate", "reader on %s (%s) token %d limit %d read to the end of the feed in one page and was not given %s, whose newest version is one of several identical ones",
				r.DS, kind, r.Token, limit, shortURI(id))
		}
	}
	if nextToken < r.Token {
		return viol("C02", "reader", kind+":token-regressed", "reader on %s: token went from %d to %d", r.DS, r.Token, nextToken)
	}
	if r.TokenIsIndex {
		// identical versions: the token tells at which of them the hub found the last entry of the page
		for idx < len(d.Versions) && uint64(idx) < nextToken && !(d.IsLatest(idx) && !opt[idx]) {
			step()
		}
	}
	tokenOK := nextToken == uint64(idx) || (len(got) == 0 && nextToken == r.Token)
	if !tokenOK && nextToken < uint64(idx) {
		// the entries the compaction removed at the very end of the feed are not counted by the hub
		tokenOK = true
		for p := int(nextToken); p < idx; p++ {
			if !opt[p] {
				tokenOK = false
			}
		}
	}
	if r.TokenIsIndex && !tokenOK {
		return viol("C02", "reader", kind+":token-off", "reader on %s (%s) token %d limit %d: the page ends at feed index %d, the token returned is %d", r.DS, kind, r.Token, limit, idx, nextToken)
	}
	if r.delivered == nil {
		r.delivered, r.passedIn = map[string]bool{}, map[string]int{}
	}
	for id := range delivered {
		r.delivered[id] = true
	}
	for id, p := range passed {
		r.passedIn[id] = p
	}
	r.Token = nextToken
	r.Idx = idx
	r.Pages++
	return nil
}

// ReadPage reads one page and checks it against the model.
func (r *FeedReader) ReadPage(h *Hub, m *Model, limit int) *Violation {
	d := m.DS[r.DS]
	ds := h.Dataset(r.DS)
	if d == nil || ds == nil {
		return nil
	}
	c, err := ds.GetChanges(r.Token, limit, r.Latest)
	if err != nil {
		return viol("C02", "reader", "error", "GetChanges(%s,%d,%d,%v): %v", r.DS, r.Token, limit, r.Latest, err)
	}
	return r.Verify(d, canonList(h, c.Entities), c.NextToken, limit)
}

// Verify checks one page (already fetched with the reader's token) against the model feed.
func (r *FeedReader) Verify(d *DSModel, got []string, nextToken uint64, limit int) *Violation {
	if r.Latest && r.Compacting {
		return r.verifyCompacting(d, got, nextToken, limit)
	}
	kind := "full"
	if r.Latest {
		kind = "latestOnly"
	}
	// The property fixes the concatenation of the pages, not their size: every returned entry must
	// be the next feed entry the reader has not seen yet (for latest-only: the next entry that is
	// the newest version of its entity, older versions in between are skipped), and an empty page
	// means there is nothing (latest) left.
	idx := r.Idx
	for gi, g := range got {
		for r.Latest && idx < len(d.Versions) && !d.IsLatest(idx) {
			idx++
		}
		if idx >= len(d.Versions) {
			return viol("C02", "reader", kind+":page:extra-entry", "reader on %s (%s) token %d limit %d at feed index %d: entry %d of the page (%s) is beyond the end of the feed (%d versions)",
				r.DS, kind, r.Token, limit, r.Idx, gi, g, len(d.Versions))
		}
		if d.Versions[idx].Str != g {
			cls := "wrong-entry"
			for j := idx + 1; j < len(d.Versions); j++ {
				if d.Versions[j].Str == g && (!r.Latest || d.IsLatest(j)) {
					cls = "skipped-entry"
					break
				}
			}
			for j := 0; j < idx && cls == "wrong-entry"; j++ {
				if d.Versions[j].Str == g {
					cls = "repeated-entry"
				}
			}
			return viol("C02", "reader", kind+":page:"+cls, "reader on %s (%s) token %d limit %d: entry %d of the page is %s, the next unread feed entry (index %d) is %s",
				r.DS, kind, r.Token, limit, gi, g, idx, d.Versions[idx].Str)
		}
		idx++
	}
	if len(got) == 0 || (limit > 0 && len(got) < limit) || limit == 0 {
		// the page ended because the feed ended: nothing (latest) may be left unread
		for j := idx; j < len(d.Versions); j++ {
			if !r.Latest || d.IsLatest(j) {
				return viol("C02", "reader", kind+":page:missing-entry", "reader on %s (%s) token %d limit %d returned %d entries and stopped at feed index %d although entry %d (%s) is unread",
					r.DS, kind, r.Token, limit, len(got), idx, j, d.Versions[j].Str)
			}
		}
		idx = len(d.Versions)
	}
	if nextToken < r.Token {
		return viol("C02", "reader", kind+":token-regressed", "reader on %s: token went from %d to %d", r.DS, r.Token, nextToken)
	}
	if r.TokenIsIndex && nextToken != uint64(idx) && !(len(got) == 0 && nextToken == r.Token) {
		return viol("C02", "reader", kind+":token-off", "reader on %s (%s) token %d limit %d: the page ends at feed index %d, the token returned is %d", r.DS, kind, r.Token, limit, idx, nextToken)
	}
	r.Token = nextToken
	r.Idx = idx
	r.Pages++
	return nil
}

// ---------------------------------------------------------------------------------------
// C03: relationship queries

type relPair = [2]string

func relSet(h *Hub, rels []server.RelatedEntityResult) (map[relPair]int, []relPair) {
	out := map[relPair]int{}
	var order []relPair
	for _, r := range rels {
		id := ""
		if r.RelatedEntity != nil {
			id = h.expand(r.RelatedEntity.ID)
		}
		p := relPair{h.expand(r.PredicateURI), id}
		out[p]++
		order = append(order, p)
	}
	return out, order
}

func fmtPairs(m map[relPair]bool) string {
	var l []string
	for p := range m {
		l = append(l, shortURI(p[0])+"->"+shortURI(p[1]))
	}
	sort.Strings(l)
	return "{" + strings.Join(l, " ") + "}"
}

func fmtPairsN(m map[relPair]int) string {
	var l []string
	for p, n := range m {
		s := shortURI(p[0]) + "->" + shortURI(p[1])
		if n > 1 {
			s += fmt.Sprintf("x%d", n)
		}
		l = append(l, s)
	}
	sort.Strings(l)
	return "{" + strings.Join(l, " ") + "}"
}

func shortURI(s string) string {
	s = strings.TrimPrefix(s, ExE)
	s = strings.TrimPrefix(s, ExS)
	return s
}

func scopeClass(scope []string) string {
	switch len(scope) {
	case 0:
		return "unscoped"
	case 1:
		return "1ds"
	}
	return "multi-ds"
}

// queryRelated runs one relationship query; unknown predicate / start are empty results.
func queryRelated(h *Hub, start, pred string, inverse bool, scope []string, limit int) (server.RelatedEntitiesQueryResult, error) {
	p := pred
	if p != "*" {
		p = h.curie(pred)
	}
	res, err := h.Store.GetManyRelatedEntitiesBatch([]string{h.curie(start)}, p, inverse, scope, limit, true)
	if err != nil && strings.Contains(err.Error(), "could not load predicate id") {
		return server.RelatedEntitiesQueryResult{}, nil
	}
	return res, err
}

// CheckRelations compares every (start, predicate, direction, scope) query with the model.
func CheckRelations(h *Hub, m *Model, pool, preds []string, scopes [][]string, limits []int, rep func(*Violation) bool) (v *Violation, queries int) {
	// rep is told about every mismatch; it returns true to stop (the violation is then returned)
	report := func(x *Violation) bool {
		if rep == nil || rep(x) {
			v = x
			return true
		}
		return false
	}
	for _, start := range pool {
		fs := markerToFull(start)
		for _, pred := range append([]string{"*"}, preds...) {
			fp := pred
			if fp != "*" {
				fp = markerToFull(pred)
			}
			for _, inverse := range []bool{false, true} {
				dir := "out"
				if inverse {
					dir = "in"
				}
				for _, scope := range scopes {
					var exp map[relPair]bool
					if inverse {
						exp = m.In(fs, fp, scope)
					} else {
						exp = m.Out(fs, fp, scope)
					}
					queries++
					res, err := queryRelated(h, start, pred, inverse, scope, 0)
					if err != nil {
						return viol("C03", "relations", dir+":error", "query %s %s %s scope %v: %v", start, pred, dir, scope, err), queries
					}
					got, _ := relSet(h, res.Relations)
					if vv := cmpRel(exp, got); vv != "" {
						wild := "pred"
						if pred == "*" {
							wild = "wildcard"
						}
						sig := fmt.Sprintf("%s:%s:%s:%s", dir, vv, wild, scopeClass(scope))
						if inverse && multiRelationHistory(m, fs, fp, scope, exp, got) {
							sig = fmt.Sprintf("in:%s:multi-relation-history", vv)
						}
						if report(viol("C03", "relations", sig,
							"query start=%s pred=%s %s scope=%v returned %s, graph of latest versions implies %s", shortURI(fs), shortURI(fp), dir, scope, fmtPairsN(got), fmtPairs(exp))) {
							return v, queries
						}
						continue
					}
					for _, lim := range limits {
						if lim <= 0 || len(exp) == 0 {
							continue
						}
						queries++
						all := map[relPair]int{}
						res, err := queryRelated(h, start, pred, inverse, scope, lim)
						if err != nil {
							return viol("C03", "relations", dir+":error", "paged query: %v", err), queries
						}
						for guard := 0; ; guard++ {
							g, _ := relSet(h, res.Relations)
							for p, n := range g {
								all[p] += n
							}
							if len(res.Cont) == 0 {
								break
							}
							if guard > 4*len(exp)+20 {
								return viol("C03", "relations", dir+":paged:no-termination", "paged query start=%s pred=%s %s scope=%v limit=%d does not terminate", start, pred, dir, scope, lim), queries
							}
							res, err = h.Store.GetManyRelatedEntitiesAtTime(res.Cont, lim, true)
							if err != nil {
								return viol("C03", "relations", dir+":error", "continuation: %v", err), queries
							}
						}
						if vv := cmpRel(exp, all); vv != "" {
							sig := fmt.Sprintf("%s:paged:%s:%s", dir, vv, scopeClass(scope))
							if inverse && multiRelationHistory(m, fs, fp, scope, exp, all) {
								sig = fmt.Sprintf("in:paged:%s:multi-relation-history", vv)
							}
							if report(viol("C03", "relations", sig,
								"paged query start=%s pred=%s %s scope=%v limit=%d returned %s, expected %s", shortURI(fs), shortURI(fp), dir, scope, lim, fmtPairsN(all), fmtPairs(exp))) {
								return v, queries
							}
						}
					}
				}
			}
		}
	}
	// several start entities in one query (as POST /query and the Query function of transforms allow), unpaged and
	// paged: every start entity gets its own relations, nothing is lost or repeated at the borders between them
	if len(pool) >= 2 {
		starts := pool
		if len(starts) > 3 {
			starts = starts[:3]
		}
		var curies []string
		for _, st := range starts {
			curies = append(curies, h.curie(st))
		}
		for _, inverse := range []bool{false, true} {
			dir := "out"
			if inverse {
				dir = "in"
			}
			exp := map[string]map[relPair]bool{}
			total := 0
			for _, st := range starts {
				fs := markerToFull(st)
				if inverse {
					exp[fs] = m.In(fs, "*", nil)
				} else {
					exp[fs] = m.Out(fs, "*", nil)
				}
				total += len(exp[fs])
			}
			for _, lim := range append([]int{0}, limits...) {
				if lim < 0 {
					continue
				}
				queries++
				got := map[string]map[relPair]int{}
				res, err := h.Store.GetManyRelatedEntitiesBatch(curies, "*", inverse, nil, lim, true)
				for guard := 0; err == nil; guard++ {
					for _, r := range res.Relations {
						fs := h.expand(r.StartURI)
						if got[fs] == nil {
							got[fs] = map[relPair]int{}
						}
						id := ""
						if r.RelatedEntity != nil {
							id = h.expand(r.RelatedEntity.ID)
						}
						got[fs][relPair{h.expand(r.PredicateURI), id}]++
					}
					if len(res.Cont) == 0 || lim == 0 {
						break
					}
					if guard > 4*total+20 {
						return viol("C03", "relations", dir+":multi-start:paged:no-termination", "paged query over start entities %v %s limit=%d does not terminate", shortAll(starts), dir, lim), queries
					}
					res, err = h.Store.GetManyRelatedEntitiesAtTime(res.Cont, lim, true)
				}
				if err != nil {
					return viol("C03", "relations", dir+":multi-start:error", "query over start entities %v: %v", starts, err), queries
				}
				for _, st := range starts {
					fs := markerToFull(st)
					g := got[fs]
					if g == nil {
						g = map[relPair]int{}
					}
					if vv := cmpRel(exp[fs], g); vv != "" {
						sig := fmt.Sprintf("%s:multi-start:%s", dir, vv)
						if lim > 0 {
							sig = fmt.Sprintf("%s:multi-start:paged:%s", dir, vv)
						}
						if inverse && multiRelationHistory(m, fs, "*", nil, exp[fs], g) {
							sig = fmt.Sprintf("in:%s:multi-relation-history", vv)
							if lim > 0 {
								sig = fmt.Sprintf("in:paged:%s:multi-relation-history", vv)
							}
						}
						if report(viol("C03", "relations", sig, "query over start entities %v (any predicate, %s, limit %d) returned for %s %s, graph of latest versions implies %s", shortAll(starts), dir, lim, shortURI(fs), fmtPairsN(g), fmtPairs(exp[fs]))) {
							return v, queries
						}
						break
					}
				}
			}
		}
	}
	return v, queries
}

// multiRelationHistory tells whether every referencing entity on which an incoming query
// disagrees with the model has, over the whole history of the in-scope datasets, referenced
// the target through at least two distinct (predicate, dataset) combinations. Only then can
// the inverse index scan meet the interference recorded as known finding KF-C03-1.
func multiRelationHistory(m *Model, target, pred string, scope []string, exp map[relPair]bool, got map[relPair]int) bool {
	srcs := map[string]bool{}
	for p, n := range got {
		if !exp[p] || n > 1 {
			srcs[p[1]] = true
		}
	}
	for p := range exp {
		if got[p] == 0 {
			srcs[p[1]] = true
		}
	}
	if len(srcs) == 0 {
		return false
	}
	for src := range srcs {
		combos := map[string]bool{}
		for _, d := range m.inScope(scope) {
			for _, ver := range d.Versions {
				if ver.C.ID != src {
					continue
				}
				for _, pt := range refTargets(ver.C) {
					if pt[1] == target && (pred == "*" || pred == pt[0]) {
						combos[pt[0]+"|"+d.Name] = true
					}
				}
			}
		}
		if len(combos) < 2 {
			return false
		}
	}
	return true
}

func cmpRel(exp map[relPair]bool, got map[relPair]int) string {
	for p, n := range got {
		if n > 1 {
			return "duplicate"
		}
		if !exp[p] {
			return "extra"
		}
	}
	for p := range exp {
		if got[p] == 0 {
			return "missing"
		}
	}
	return ""
}
