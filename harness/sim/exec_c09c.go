package verifsim

import (
	"fmt"
	"os"
	"sort"
	"strings"
	"time"
)

// Concurrent full-sync executor (profile C09c): the requests of one or two full-sync clients and of plain writers
// are tasks of the cooperative scheduler and interleave at the hook points inside the entity handler (after the
// sync check, between the batches of one request, before the completion), inside the completion scan and inside
// the store. Oracles, all taken from the statement and evaluated over the observed order of commits and the
// final change feed:
//   - deletion safety: a completion never deletes an entity that was written to the dataset since the start of
//     the sync it completes (whoever wrote it), and a request that was refused commits nothing;
//   - completeness (when no second sync is around): every entity that was live at the start of a sync which
//     completed, and was not written since, is deleted exactly once;
//   - a lone sync and plain writers are never refused; lockset monitor on the sync's seen-set.

type c9req struct {
	op         *Op
	task, idx  int
	name       string
	start, end bool
	id         string
	code       int
	done       bool
	passed     bool // reached the point behind the sync check
	inComplete bool
	checkSeq   int // global event number of the request's sync check (0: refused there or not yet run)
	startAt    int // commits observed when the start was applied (start requests)
	retAt      int // commits observed when the request returned
}

type c9commit struct {
	req *c9req
	del bool
}

func genC09c(g *G, sc *Scenario, tier string) {
	sc.Datasets = []string{"ds1"}
	pool := poolNames(MkE, "e", g.Range(3, 6))
	ent := func(id, mark string) Ent {
		e := Ent{"id": id, "props": map[string]any{MkS + "w": mark}, "refs": map[string]any{}}
		if g.P(0.2) {
			e["refs"].(map[string]any)[MkS+"p0"] = g.Pick(pool)
		}
		return e
	}
	pickSome := func(mark string, lo, hi int) []Ent {
		var ents []Ent
		perm := g.r.Perm(len(pool))
		n := g.Range(lo, hi)
		if n > len(pool) {
			n = len(pool)
		}
		for k := 0; k < n; k++ {
			ents = append(ents, ent(pool[perm[k]], fmt.Sprintf("%s.%d", mark, k)))
		}
		return ents
	}
	// initial population
	sc.Ops = append(sc.Ops, Op{K: "post", DS: "ds1", Ents: pickSome("init", 2, len(pool))})
	syncTask := func(name string) []Op {
		var ops []Op
		n := g.Range(1, 3)
		for i := 0; i < n; i++ {
			m := map[string]any{"id": name}
			if i == 0 {
				m["start"] = true
			}
			if i == n-1 {
				m["end"] = true
			}
			lo := 1
			if i == n-1 && n > 1 && g.P(0.3) {
				lo = 0
			}
			ops = append(ops, Op{K: "post", DS: "ds1", M: m, Ents: pickSome(fmt.Sprintf("%s.%d", name, i), lo, 3)})
		}
		return ops
	}
	plainTask := func(name string) []Op {
		var ops []Op
		for i, n := 0, g.Range(1, 3); i < n; i++ {
			ops = append(ops, Op{K: "post", DS: "ds1", Ents: pickSome(fmt.Sprintf("%s.%d", name, i), 1, 2)})
			if g.P(0.2) {
				ops[len(ops)-1].Sleep = int64(g.PickInt([]int{1, 7, 1000}))
			}
		}
		return ops
	}
	sc.Tasks = append(sc.Tasks, syncTask("syncA"))
	switch x := g.r.Float64(); {
	case x < 0.55:
		sc.Tasks = append(sc.Tasks, plainTask("w1"))
		if g.P(0.3) {
			sc.Tasks = append(sc.Tasks, plainTask("w2"))
		}
	case x < 0.85:
		sc.Tasks = append(sc.Tasks, syncTask("syncB"))
	default:
		sc.Tasks = append(sc.Tasks, syncTask("syncB"), plainTask("w1"))
	}
	sc.Knobs["web.batchSize"] = int64(g.PickInt([]int{1, 1, 2, 10}))
	sc.Knobs["leaseTimeoutNs"] = int64(time.Hour)
	sc.Knobs["schedSeed"] = int64(g.r.Uint64() >> 1)
	sc.Knobs["preemptPct"] = int64(g.PickInt([]int{20, 50, 70}))
}

func RunC09cScenario(sc *Scenario) (vd *Verdict) {
	vd = &Verdict{Verdict: "ok", Property: sc.Property, Profile: sc.Profile, Seed: sc.Seed}
	startT := time.Now()
	stats := map[string]int64{}
	secDir := NewDir("sec")
	h, err := OpenWebHub(NewDir("webhub"), secDir, sc.Knobs, false)
	if err != nil {
		vd.Verdict, vd.Message = "error", err.Error()
		return
	}
	hooks.onPointAlways = func(name string) {
		if name == "fullsync.lease.fired" {
			time.Sleep(time.Nanosecond)
		}
	}
	defer func() {
		hooks.onPointAlways = nil
		hooks.sched = nil
		_ = h.Close()
		os.RemoveAll(h.Dir)
		os.RemoveAll(secDir)
	}()
	fail := func(v *Violation) {
		vd.Verdict = "violation"
		vd.Property, vd.Oracle, vd.Signature, vd.Message = sc.Property, v.Oracle, v.Signature, v.Message
	}
	const ds = "ds1"
	if _, err := h.Dsm.CreateDataset(ds, nil); err != nil {
		vd.Verdict, vd.Message = "error", err.Error()
		return
	}
	post := func(op *Op) (int, []byte) {
		hdr := map[string]string{}
		if boolOf(op.M, "start") {
			hdr["universal-data-api-full-sync-start"] = "true"
		}
		if boolOf(op.M, "end") {
			hdr["universal-data-api-full-sync-end"] = "true"
		}
		if id, _ := op.M["id"].(string); id != "" {
			hdr["universal-data-api-full-sync-id"] = id
		}
		stats["http_posts"]++
		return h.Do("POST", "/datasets/"+op.DS+"/entities", hdr, udaBody(op.Ents))
	}
	for i := range sc.Ops {
		time.Sleep(time.Nanosecond)
		if code, body := post(&sc.Ops[i]); code != 200 {
			vd.Verdict, vd.Message = "error", fmt.Sprintf("initial population refused: %d %s", code, body)
			return
		}
	}
	time.Sleep(time.Nanosecond)
	dsh := h.Dataset(ds)
	initial, err := dsh.GetChanges(0, 0, false)
	if err != nil {
		vd.Verdict, vd.Message = "error", err.Error()
		return
	}
	nInit := len(initial.Entities)

	s := NewSched()
	s.schedule = sc.Schedule
	if len(sc.Schedule) == 0 {
		if seed, ok := sc.Knobs["schedSeed"]; ok {
			s.gen = NewG(uint64(seed))
			s.pPreempt = float64(sc.Knob("preemptPct", 20)) / 100
		}
	}
	if v, ok := sc.Knobs["maxSteps"]; ok {
		s.MaxSteps = int(v)
	}
	s.SetName(dsh, ds)
	s.SetName(h.Dataset("core.Dataset"), "core.Dataset")
	var commits []c9commit
	var reqs [][]*c9req
	syncs, evseq := 0, 0
	s.OnPoint = func(t *Task, name string) {
		rq, _ := t.Cur.(*c9req)
		if rq == nil {
			return
		}
		evseq++
		switch name {
		case "http.store.afterSyncCheck":
			rq.passed = true
			rq.checkSeq = evseq
			if rq.start {
				rq.startAt = len(commits)
			}
		case "http.store.beforeComplete":
			if rq.end {
				rq.inComplete = true
			}
		case "StoreEntities.afterDataCommit":
			commits = append(commits, c9commit{req: rq, del: rq.inComplete})
		}
	}
	// a StoreEntities call on the dataset is followed by one on core.Dataset (item counter): tell them apart by
	// the dataset whose write lock the task holds
	s.OnPoint = wrapC09Point(s, s.OnPoint, dsh)
	hooks.sched = s
	for ti := range sc.Tasks {
		var rs []*c9req
		for oi := range sc.Tasks[ti] {
			op := &sc.Tasks[ti][oi]
			rq := &c9req{op: op, task: ti, idx: oi, start: boolOf(op.M, "start"), end: boolOf(op.M, "end")}
			if op.M != nil {
				rq.id, _ = op.M["id"].(string)
			}
			rq.name = fmt.Sprintf("T%d.%d", ti, oi)
			if rq.start {
				syncs++
			}
			rs = append(rs, rq)
		}
		reqs = append(reqs, rs)
		var tk *Task
		tk = s.Spawn(fmt.Sprintf("T%d", ti), h.Store.VerifDB(), func() {
			for _, rq := range rs {
				if rq.op.Sleep > 0 {
					time.Sleep(time.Duration(rq.op.Sleep))
				}
				tk.Cur = rq
				rq.code, _ = post(rq.op)
				rq.retAt = len(commits)
				rq.done = true
				tk.Cur = nil
			}
		})
	}
	s.ClientsOnly = true
	s.Run()
	hooks.sched = nil
	for k, v := range s.Stats {
		stats[k] = v
	}
	// how often the scheduler found a released goroutine blocked outside the hooks is a diagnostic of the harness; with
	// lease timers that are cancelled while the run ends it depends on which of two ready channels a select picks
	delete(stats, "wild_blocks")
	stats["steps"] = int64(s.Steps)
	stats["commits"] = int64(len(commits))
	defer func() {
		for k, v := range PointHits() {
			if strings.HasPrefix(k, "http.") || strings.HasPrefix(k, "fullsync.") || strings.HasPrefix(k, "CompleteFullSync") {
				stats["point_"+k] += v
			}
		}
		vd.Stats = stats
		vd.TraceHash = s.TraceHash()
		vd.SimNS = int64(time.Since(startT))
		vd.Nontrivial = len(commits) >= 2 && s.Stats["preemptions"] >= 1
	}()
	if len(sc.Schedule) == 0 && s.gen != nil {
		sc.Schedule = append([]int(nil), s.Chosen...)
		delete(sc.Knobs, "schedSeed")
	}
	if s.Violation != nil {
		fail(s.Violation)
		return
	}
	for _, rc := range s.Races {
		if strings.HasPrefix(rc, "fullsync.state") {
			fail(viol("C09", "lockset-race", "fullsync.state:"+raceSites(rc), "the full-sync state of a dataset (started flag, id, set of entities seen) is read and written by concurrent requests without a common lock; the set is a Go map, so the race ends the process: %s", rc))
			return
		}
	}
	if s.Stats["budget_exhausted"] > 0 {
		vd.Verdict, vd.Message = "invalid", "step budget exhausted"
		return
	}
	for _, rs := range reqs {
		for _, rq := range rs {
			if !rq.done {
				fail(viol("C09", "hang", "unfinished-request", "request %s never returned", rq.name))
				return
			}
			if syncs == 1 && rq.id != "" && rq.code != 200 {
				fail(viol("C09", "fullsync-protocol", fmt.Sprintf("valid-request-rejected:%d:concurrent", rq.code), "request %s (start=%v id=%q end=%v) was answered %d although only one full sync and plain writers were active", rq.name, rq.start, rq.id, rq.end, rq.code))
				return
			}
		}
	}
	// the final feed, cut into the commits that produced it
	res, err := dsh.GetChanges(0, 0, false)
	if err != nil {
		fail(viol("C09", "fullsync-protocol", "feed-error", "%v", err))
		return
	}
	type ver struct {
		id      string
		mark    string
		deleted bool
	}
	var feed []ver
	for _, e := range res.Entities[nInit:] {
		c := h.Canon(e)
		v := ver{id: c.ID, deleted: c.Deleted}
		v.mark = c9mark(c.Props)
		feed = append(feed, v)
	}
	// state at the end of the initial population
	live := map[string]bool{}
	for _, e := range res.Entities[:nInit] {
		c := h.Canon(e)
		live[c.ID] = !c.Deleted
	}
	// batches of every request, in the order the handler commits them
	bs := int(sc.Knob("web.batchSize", 10))
	type wcommit struct {
		ids   []string
		marks []string
	}
	perReq := map[*c9req][]wcommit{}
	for _, rs := range reqs {
		for _, rq := range rs {
			var cur wcommit
			for _, e := range rq.op.Ents {
				c := CanonSpec(e)
				cur.ids = append(cur.ids, c.ID)
				cur.marks = append(cur.marks, c9mark(c.Props))
				if len(cur.ids) == bs {
					perReq[rq] = append(perReq[rq], cur)
					cur = wcommit{}
				}
			}
			if len(cur.ids) > 0 {
				perReq[rq] = append(perReq[rq], cur)
			}
		}
	}
	used := map[*c9req]int{}
	pos := 0
	writtenAt := map[string][]int{} // id -> indices of the write commits that contain it
	curMark := map[string]string{}  // id -> mark of its current version
	for _, e := range res.Entities[:nInit] {
		c := h.Canon(e)
		curMark[c.ID] = c9mark(c.Props)
	}
	type delGroup struct {
		commit int
		req    *c9req
		ids    []string
	}
	var groups []delGroup
	for ci, cm := range commits {
		if cm.req.code >= 400 && !cm.del && !cm.req.passed {
			fail(viol("C09", "fullsync-protocol", "refused-request-committed", "request %s was answered %d at its sync check but committed a batch", cm.req.name, cm.req.code))
			return
		}
		if !cm.del {
			k := used[cm.req]
			used[cm.req]++
			if k >= len(perReq[cm.req]) {
				fail(viol("C09", "fullsync-protocol", "unexpected-commit", "request %s committed more batches than its payload has", cm.req.name))
				return
			}
			w := perReq[cm.req][k]
			for j, id := range w.ids {
				if pos >= len(feed) || feed[pos].id != id || feed[pos].mark != w.marks[j] || feed[pos].deleted {
					got := "end of feed"
					if pos < len(feed) {
						got = fmt.Sprintf("%s mark=%s deleted=%v", shortURI(feed[pos].id), feed[pos].mark, feed[pos].deleted)
					}
					fail(viol("C09", "fullsync-protocol", "feed-differs-from-commits", "commit %d (request %s, batch %d) should have appended %s mark=%s at feed position %d; the feed has %s", ci, cm.req.name, k, shortURI(id), w.marks[j], nInit+pos, got))
					return
				}
				pos++
				writtenAt[id] = append(writtenAt[id], ci)
				live[id] = true
				curMark[id] = w.marks[j]
			}
			continue
		}
		g := delGroup{commit: ci, req: cm.req}
		for pos < len(feed) && feed[pos].deleted {
			// a completion marks the current version deleted; it never brings older content back
			if cur, ok := curMark[feed[pos].id]; ok && cur != feed[pos].mark {
				fail(viol("C09", "fullsync-deletes", "completion-rolled-content-back", "the completion of sync %q (request %s, commit %d) stored a deleted version of %s with the content of an older version (mark %s) on top of the current one (mark %s): a write that was committed while the completion scanned the dataset is undone", cm.req.id, cm.req.name, ci, shortURI(feed[pos].id), feed[pos].mark, cur))
				return
			}
			g.ids = append(g.ids, feed[pos].id)
			pos++
		}
		groups = append(groups, g)
	}
	if pos != len(feed) {
		fail(viol("C09", "fullsync-protocol", "feed-differs-from-commits", "the feed has %d entries that no observed commit accounts for (first: %s deleted=%v)", len(feed)-pos, shortURI(feed[pos].id), feed[pos].deleted))
		return
	}
	// which start does a completing request belong to
	startOf := func(rq *c9req) *c9req {
		for _, x := range reqs[rq.task] {
			if x.start && x.id == rq.id {
				return x
			}
		}
		return nil
	}
	for gi, g := range groups {
		st := startOf(g.req)
		if st == nil {
			continue
		}
		adjacent := gi+1 < len(groups) && groups[gi+1].commit == g.commit+1
		if adjacent {
			stats["adjacent_deletion_commits"]++
		}
		for _, id := range g.ids {
			for _, wc := range writtenAt[id] {
				by := commits[wc].req
				// a request that was under way when the sync started may count as written before it; one whose sync
				// check came after the start was applied cannot
				if wc >= st.startAt && wc < g.commit && by.checkSeq >= st.checkSeq {
					fail(viol("C09", "fullsync-deletes", "deleted-entity-written-since-start", "the completion of sync %q (request %s, commit %d) marked %s deleted, but request %s (start=%v id=%q), which arrived after the sync had started, had written it in commit %d (the sync started at commit %d): an entity written to the dataset since the start of the sync must stay live", g.req.id, g.req.name, g.commit, shortURI(id), by.name, by.start, by.id, wc, st.startAt))
					return
				}
			}
		}
		stats["completions_checked"]++
	}
	// completeness for a lone sync
	if syncs == 1 {
		var st, en *c9req
		for _, rs := range reqs {
			for _, rq := range rs {
				if rq.start {
					st = rq
				}
				if rq.end && rq.id != "" {
					en = rq
				}
			}
		}
		if st != nil && en != nil && en.code == 200 {
			// live set at the start of the sync
			liveAt := map[string]bool{}
			for _, e := range res.Entities[:nInit] {
				c := h.Canon(e)
				liveAt[c.ID] = !c.Deleted
			}
			for ci := 0; ci < st.startAt && ci < len(commits); ci++ {
				if !commits[ci].del {
					// ids of write commit ci
					for id, l := range writtenAt {
						for _, x := range l {
							if x == ci {
								liveAt[id] = true
							}
						}
					}
				}
			}
			delCommit := len(commits)
			deleted := map[string]int{}
			for _, g := range groups {
				if g.req == en {
					delCommit = g.commit
					for _, id := range g.ids {
						deleted[id]++
					}
				}
			}
			var ids []string
			for id := range liveAt {
				ids = append(ids, id)
			}
			sort.Strings(ids)
			for _, id := range ids {
				if !liveAt[id] {
					continue
				}
				since := false
				for _, wc := range writtenAt[id] {
					if wc >= st.startAt && wc < en.retAt {
						since = true
					}
				}
				if since {
					continue
				}
				if deleted[id] != 1 {
					fail(viol("C09", "fullsync-deletes", fmt.Sprintf("unseen-entity-deleted-%d-times:concurrent", deleted[id]), "sync %q completed (request %s answered 200, deletion commit %d): %s was live when the sync started (commit %d) and was not written since, but has %d deleted versions from the completion", st.id, en.name, delCommit, shortURI(id), st.startAt, deleted[id]))
					return
				}
			}
			stats["completeness_checked"]++
		}
	}
	return
}

// wrapC09Point filters the commit events: only a StoreEntities call on the dataset itself counts (the item
// counter update of core.Dataset passes the same hook point right after it).
func wrapC09Point(s *Sched, inner func(*Task, string), dsh any) func(*Task, string) {
	return func(t *Task, name string) {
		if name == "StoreEntities.afterDataCommit" {
			holds := false
			for k := range t.held {
				if k.kind == "dataset.write" && k.obj == dsh {
					holds = true
				}
			}
			// the counter update runs while the dataset's own lock is still held, with core.Dataset's on top
			n := 0
			for k := range t.held {
				if k.kind == "dataset.write" {
					n++
				}
			}
			if !holds || n != 1 {
				return
			}
		}
		inner(t, name)
	}
}

func c9mark(props map[string]any) string {
	if m, ok := props[ExS+"w"]; ok && m != nil {
		return strings.Trim(fmt.Sprint(m), "\"")
	}
	return ""
}
