package verifsim

import (
	"encoding/json"
	"fmt"
	"os"
	"path/filepath"
	"strings"
	"time"

	"github.com/DataDog/datadog-go/v5/statsd"
	"go.uber.org/zap"
	"go.uber.org/zap/zapcore"
	"go.uber.org/zap/zaptest/observer"

	"github.com/mimiro-io/datahub/internal/conf"
	"github.com/mimiro-io/datahub/internal/server"
)

// Hub is one running instance of the data hub (store level; job / web / security layers are
// attached by hublevel.go when a profile needs them).
type Hub struct {
	Dir   string
	Env   *conf.Config
	Store *server.Store
	Dsm   *server.DsManager
	PfxE  string // CURIE prefix the store assigned to ExE
	PfxS  string
	Full  *FullHub               // non-nil for hub-level profiles
	Logs  *observer.ObservedLogs // when knob observeLogs=1: warnings and errors the hub logged
}

func nopLogger() *zap.SugaredLogger {
	return zap.New(zapcore.NewNopCore(), zap.WithFatalHook(zapcore.WriteThenPanic)).Sugar()
}

var lastObserved *observer.ObservedLogs

func newEnv(dir string, knobs map[string]int64) *conf.Config {
	logger := nopLogger()
	lastObserved = nil
	if knobs["observeLogs"] == 1 {
		core, logs := observer.New(zapcore.WarnLevel)
		logger = zap.New(core, zap.WithFatalHook(zapcore.WriteThenPanic)).Sugar()
		lastObserved = logs
	}
	env := &conf.Config{
		Logger:        logger,
		StoreLocation: dir,
		// keep the value log small: every open store otherwise maps a 2 GB sparse file
		ValueLogFileSize: 1 << 20,
	}
	if v, ok := knobs["leaseTimeoutNs"]; ok {
		env.FullsyncLeaseTimeout = time.Duration(v)
	}
	if v, ok := knobs["blockCache"]; ok {
		env.BlockCacheSize = v
	} else {
		env.BlockCacheSize = 1 << 20
	}
	return env
}

// OpenHub opens (or re-opens) a store in dir. A panic while opening is returned as error.
func OpenHub(dir string, knobs map[string]int64) (h *Hub, err error) {
	defer func() {
		if r := recover(); r != nil {
			err = fmt.Errorf("open panicked: %v", r)
		}
	}()
	env := newEnv(dir, knobs)
	if knobs["provisionedID"] == 1 {
		// an operator has given the store a name of its own for its backups (the hub only writes an id if there is none)
		idf := filepath.Join(dir, "DATAHUB_BACKUPID")
		if _, err := os.Stat(idf); err != nil {
			_ = os.MkdirAll(dir, 0o755)
			_ = os.WriteFile(idf, []byte("datahub-"+filepath.Base(dir)), 0o644)
		}
	}
	h = &Hub{Dir: dir, Env: env, Logs: lastObserved}
	h.Store = server.NewStore(env, &statsd.NoOpClient{})
	h.Dsm = server.NewDsManager(env, h.Store, server.NoOpBus())
	h.PfxE, err = h.Store.NamespaceManager.AssertPrefixMappingForExpansion(ExE)
	if err != nil {
		return nil, err
	}
	h.PfxS, err = h.Store.NamespaceManager.AssertPrefixMappingForExpansion(ExS)
	if err != nil {
		return nil, err
	}
	return h, nil
}

func (h *Hub) Close() error {
	if h.Full != nil {
		h.Full.stop()
	}
	return h.Store.Close()
}

// Restart closes the hub cleanly and opens it again on the same directory.
func (h *Hub) Restart(knobs map[string]int64) (*Hub, error) {
	if err := h.Close(); err != nil {
		return nil, fmt.Errorf("close: %w", err)
	}
	return OpenHub(h.Dir, knobs)
}

func (h *Hub) curie(s string) string {
	if strings.HasPrefix(s, "http://") || strings.HasPrefix(s, "https://") {
		// a full URI is compacted the way the HTTP layer does before storing
		if c, err := h.Store.GetNamespacedIdentifier(s, nil); err == nil && c != "" {
			return c
		}
		return s
	}
	if strings.HasPrefix(s, MkE) {
		return h.PfxE + ":" + s[len(MkE):]
	}
	if strings.HasPrefix(s, MkS) {
		return h.PfxS + ":" + s[len(MkS):]
	}
	return s
}

// Entity builds a fresh server.Entity from a scenario entity.
func (h *Hub) Entity(e Ent) *server.Entity {
	m := normJSON(mapEntity(e, h.curie)).(map[string]any)
	ent := server.NewEntity("", 0)
	if s, ok := m["id"].(string); ok {
		ent.ID = s
	}
	if d, ok := m["deleted"].(bool); ok {
		ent.IsDeleted = d
	}
	if p, ok := m["props"].(map[string]any); ok {
		for _, k := range sortedKeys(p) {
			ent.Properties[k] = p[k]
		}
	}
	if r, ok := m["refs"].(map[string]any); ok {
		for _, k := range sortedKeys(r) {
			ent.References[k] = r[k]
		}
	}
	return ent
}

func (h *Hub) Entities(es []Ent) []*server.Entity {
	out := make([]*server.Entity, len(es))
	for i, e := range es {
		out[i] = h.Entity(e)
	}
	return out
}

// expand turns a CURIE handed out by the store into a full URI. Unknown prefixes are kept.
func (h *Hub) expand(s string) string {
	if i := strings.Index(s, ":"); i > 0 && strings.HasPrefix(s, "ns") {
		if full, err := h.Store.ExpandCurie(s); err == nil {
			return full
		}
	}
	return s
}

// Canon gives the canonical form of an entity returned by the store.
func (h *Hub) Canon(e *server.Entity) *CanonEnt {
	if e == nil {
		return nil
	}
	b, err := json.Marshal(e)
	if err != nil {
		panic(err)
	}
	var m map[string]any
	if err := json.Unmarshal(b, &m); err != nil {
		panic(err)
	}
	return canonFromMap(mapEntity(m, h.expand))
}

func (h *Hub) Dataset(name string) *server.Dataset { return h.Dsm.GetDataset(name) }

// scratch directory handling -------------------------------------------------------------

var scratchRoot string

func ScratchRoot() string {
	if scratchRoot == "" {
		base := os.Getenv("VERIF_SCRATCH")
		if base == "" {
			base = "/dev/shm"
		}
		scratchRoot = fmt.Sprintf("%s/dhsim-%d", base, os.Getpid())
		_ = os.MkdirAll(scratchRoot, 0o755)
	}
	return scratchRoot
}

var dirCounter int

func NewDir(tag string) string {
	dirCounter++
	d := fmt.Sprintf("%s/%s-%d", ScratchRoot(), tag, dirCounter)
	_ = os.RemoveAll(d)
	_ = os.MkdirAll(d, 0o755)
	return d
}
