package verifsim

import (
	"context"
	"crypto/sha256"
	"encoding/hex"
	"encoding/json"
	"fmt"
	"os"
	"sort"
	"time"

	"github.com/mimiro-io/datahub/internal/server"
)

// Run state shared by the sequential (single client, restarts, crashes) profiles.
type SeqRun struct {
	Sc      *Scenario
	H       *Hub
	M       *Model
	Stats   map[string]int64
	trace   []byte
	Start   time.Time
	Readers map[int]*FeedReader
	Pool    []string
	Preds   []string
	lastLen map[string]int // ds|id -> serialised length of the current version
	lastStr map[string]string
	Step    int
	Marks   []*Mark
	Paged   []*pagedQuery
}

// knownReporter returns a reporter that lets the run continue past violations matching an
// open known finding (they are counted in Stats under "known:<oracle>|<signature>").
func (r *SeqRun) knownReporter() func(*Violation) bool {
	return func(v *Violation) bool {
		if IsKnown(v) {
			r.Stats["known:"+v.Oracle+"|"+v.Signature]++
			return false
		}
		return true
	}
}

func (r *SeqRun) ev(format string, args ...any) {
	r.trace = append(r.trace, fmt.Sprintf(format, args...)...)
	r.trace = append(r.trace, '\n')
}

func (r *SeqRun) TraceHash() string {
	h := sha256.Sum256(r.trace)
	return hex.EncodeToString(h[:8])
}

// collectNames finds the id / predicate pools a scenario uses.
func collectNames(sc *Scenario) (pool, preds []string) {
	ids, ps := map[string]bool{}, map[string]bool{}
	visit := func(e Ent) {
		c := CanonSpec(e)
		ids[c.ID] = true
		for _, pt := range refTargets(c) {
			ps[pt[0]] = true
			ids[pt[1]] = true
		}
	}
	var walk func(ops []Op)
	walk = func(ops []Op) {
		for _, op := range ops {
			for _, e := range op.Ents {
				visit(e)
			}
			for _, p := range op.Parts {
				for _, e := range p.Ents {
					visit(e)
				}
			}
		}
	}
	walk(sc.Ops)
	for _, t := range sc.Tasks {
		walk(t)
	}
	back := func(s string) string {
		if len(s) >= len(ExE) && s[:len(ExE)] == ExE {
			return MkE + s[len(ExE):]
		}
		if len(s) >= len(ExS) && s[:len(ExS)] == ExS {
			return MkS + s[len(ExS):]
		}
		return s
	}
	for _, k := range sortedKeys(ids) {
		pool = append(pool, back(k))
	}
	for _, k := range sortedKeys(ps) {
		preds = append(preds, back(k))
	}
	return
}

func NewSeqRun(sc *Scenario) (*SeqRun, error) {
	r := &SeqRun{Sc: sc, M: NewModel(), Stats: map[string]int64{}, Readers: map[int]*FeedReader{},
		lastLen: map[string]int{}, lastStr: map[string]string{}, Start: time.Now()}
	r.Pool, r.Preds = collectNames(sc)
	h, err := OpenHub(NewDir("hub"), sc.Knobs)
	if err != nil {
		return nil, err
	}
	r.H = h
	for _, d := range sc.Datasets {
		var cfg *server.CreateDatasetConfig
		switch d {
		case "proxyP":
			// a proxy dataset: it has a name and an id of its own but holds nothing locally
			cfg = &server.CreateDatasetConfig{ProxyDatasetConfig: &server.ProxyDatasetConfig{RemoteURL: "http://remote.example.org/datasets/x"}}
		case "virtV":
			cfg = &server.CreateDatasetConfig{VirtualDatasetConfig: &server.VirtualDatasetConfig{Transform: "ZnVuY3Rpb24gYnVpbGRfZW50aXRpZXMoKSB7fQ=="}}
		}
		if _, err := h.Dsm.CreateDataset(d, cfg); err != nil {
			return nil, err
		}
		r.M.Create(d)
	}
	return r, nil
}

func (r *SeqRun) Cleanup() {
	if r.H != nil {
		_ = r.H.Close()
		_ = os.RemoveAll(r.H.Dir)
	}
}

// noteWrites records probe statistics about the content pairs a batch exercises.
func (r *SeqRun) noteWrites(ds string, ents []Ent) {
	seen := map[string]bool{}
	for _, e := range ents {
		se := r.H.Entity(e)
		b, _ := json.Marshal(se)
		key := ds + "|" + se.ID
		cs := CanonSpec(e).String()
		if seen[se.ID] {
			r.Stats["inbatch_repeats"]++
		}
		seen[se.ID] = true
		if prev, ok := r.lastStr[key]; ok {
			if prev == cs {
				r.Stats["identical_writes"]++
			} else if r.lastLen[key] == len(b) {
				r.Stats["eqlen_different_pairs"]++
			}
		}
		r.lastStr[key] = cs
		r.lastLen[key] = len(b)
		if d, _ := e["deleted"].(bool); d {
			r.Stats["deleted_writes"]++
		}
	}
}

// applyWrite executes a batch or transaction against hub and model.
func (r *SeqRun) applyWrite(op *Op) (touched []string, v *Violation) {
	prop := r.Sc.Property
	switch op.K {
	case "batch":
		ds := r.H.Dataset(op.DS)
		if ds == nil {
			return nil, viol(prop, "harness", "invalid", "dataset %s does not exist", op.DS)
		}
		if op.M != nil && op.M["invalid"] == true {
			// the store must refuse the batch as a whole; the model does not change
			r.Stats["rejected_writes"]++
			if err := ds.StoreEntities(r.H.Entities(op.Ents)); err == nil {
				return nil, viol(prop, "write", "invalid-batch-accepted", "StoreEntities(%s) accepted a batch with a nil reference", op.DS)
			}
			r.ev("batch rejected")
			return []string{op.DS}, nil
		}
		r.noteWrites(op.DS, op.Ents)
		if err := ds.StoreEntities(r.H.Entities(op.Ents)); err != nil {
			return nil, viol(prop, "write", "batch-rejected", "StoreEntities(%s) failed: %v", op.DS, err)
		}
		st := r.M.Batch(op.DS, op.Ents)
		r.Stats["commits"]++
		r.Stats["entities_written"] += int64(len(op.Ents))
		r.ev("batch n=%d stored=%d", len(op.Ents), st)
		return []string{op.DS}, nil
	case "txn":
		t := &server.Transaction{DatasetEntities: map[string][]*server.Entity{}}
		if op.M != nil && op.M["invalid"] == true {
			for _, p := range op.Parts {
				t.DatasetEntities[p.DS] = r.H.Entities(p.Ents)
				touched = append(touched, p.DS)
			}
			r.Stats["rejected_writes"]++
			if err := r.H.Store.ExecuteTransaction(t); err == nil {
				return nil, viol(prop, "write", "invalid-txn-accepted", "ExecuteTransaction accepted a transaction with a nil reference")
			}
			r.ev("txn rejected")
			return touched, nil
		}
		for _, p := range op.Parts {
			r.noteWrites(p.DS, p.Ents)
			t.DatasetEntities[p.DS] = r.H.Entities(p.Ents)
			touched = append(touched, p.DS)
		}
		if err := r.H.Store.ExecuteTransaction(t); err != nil {
			return nil, viol(prop, "write", "txn-rejected", "ExecuteTransaction failed: %v", err)
		}
		tot := 0
		for _, p := range op.Parts {
			tot += r.M.Batch(p.DS, p.Ents)
		}
		r.Stats["commits"]++
		r.Stats["txns"]++
		r.ev("txn parts=%d stored=%d", len(op.Parts), tot)
		return touched, nil
	}
	return nil, nil
}

func (r *SeqRun) restart() *Violation {
	h, err := r.H.Restart(r.Sc.Knobs)
	if err != nil {
		return viol(r.Sc.Property, "restart", "reopen-failed", "restart failed: %v", err)
	}
	r.H = h
	r.Stats["restarts"]++
	r.ev("restart")
	return nil
}

func allScopes(names []string) [][]string {
	out := [][]string{nil}
	n := len(names)
	for mask := 1; mask < 1<<n; mask++ {
		var s []string
		for i := 0; i < n; i++ {
			if mask&(1<<i) != 0 {
				s = append(s, names[i])
			}
		}
		out = append(out, s)
	}
	return out
}

// oracle runs the profile's own oracle over the touched datasets (all if final).
func (r *SeqRun) oracle(touched []string, final bool) *Violation {
	names := touched
	if final || len(names) == 0 {
		names = r.M.Names()
	}
	switch r.Sc.Property {
	case "C01":
		pages := []int{1, 2, 3}
		if !final && r.Sc.Knob("pagesEveryOp", 1) == 0 {
			pages = nil
		}
		for _, n := range names {
			if v := CheckLatest(r.H, r.M, n, r.Pool, pages); v != nil {
				return v
			}
		}
		scopes := allScopes(r.M.Names())
		for _, id := range r.Pool {
			for _, sc := range scopes {
				if len(sc) == 1 {
					continue
				}
				r.Stats["merged_lookups"]++
				if v := CheckMergedLookup(r.H, r.M, id, sc); v != nil {
					return v
				}
			}
		}
	case "C02":
		for _, n := range names {
			if v := CheckFeed(r.H, r.M, n, []int{1, 2, 3}); v != nil {
				return v
			}
		}
	case "C06":
		if v := r.recheckMarks(); v != nil {
			return v
		}
	case "C12":
		for _, n := range names {
			if v := CheckLatest(r.H, r.M, n, r.Pool, nil); v != nil {
				v.Property = "C12"
				return v
			}
			if v := CheckFeed(r.H, r.M, n, nil); v != nil {
				v.Property = "C12"
				return v
			}
		}
	case "C03":
		lim := []int{1, 2}
		v, q := CheckRelations(r.H, r.M, r.Pool, r.Preds, allScopes(r.M.Names()), lim, r.knownReporter())
		r.Stats["queries"] += int64(q)
		if v != nil {
			return v
		}
	}
	return nil
}

// RunStoreScenario executes a sequential store-level scenario (profiles C01, C02, C03).
func RunStoreScenario(sc *Scenario) (vd *Verdict) {
	vd = &Verdict{Verdict: "ok", Property: sc.Property, Profile: sc.Profile, Seed: sc.Seed}
	r, err := NewSeqRun(sc)
	if err != nil {
		vd.Verdict, vd.Message = "error", err.Error()
		return
	}
	defer r.Cleanup()
	fail := func(v *Violation, step int) {
		if v.Oracle == "harness" {
			vd.Verdict = "invalid"
		} else {
			vd.Verdict = "violation"
		}
		vd.Property, vd.Oracle, vd.Signature, vd.Message, vd.Step = v.Property, v.Oracle, v.Signature, v.Message, step
	}
	defer func() {
		vd.Stats = r.Stats
		vd.TraceHash = r.TraceHash()
		vd.SimNS = int64(time.Since(r.Start))
		vd.Nontrivial = r.Stats["commits"] >= 2
		if sc.Property == "C12" {
			vd.Nontrivial = r.Stats["compactions"] >= 1 && r.Stats["commits"] >= 2
		}
	}()
	checkEvery := int(sc.Knob("checkEvery", 1))
	for i := range sc.Ops {
		op := &sc.Ops[i]
		r.Step = i
		d := time.Duration(op.Sleep)
		if d < 1 {
			d = 1
		}
		time.Sleep(d)
		switch op.K {
		case "batch", "txn":
			var preL, preR map[string]string
			markBefore := op.M != nil && op.M["markBefore"] == true
			if markBefore {
				var v *Violation
				if preL, preR, v = r.currentAnswers(); v != nil {
					fail(v, i)
					return
				}
			}
			tBefore := time.Now().UnixNano()
			touched, v := r.applyWrite(op)
			if v != nil {
				fail(v, i)
				return
			}
			if markBefore {
				// only a write that really stored a version defines a commit instant
				if tk := r.lastCommitTime(op); tk > tBefore {
					r.takeMark("before-commit", tk-1, preL, preR)
					postL, postR, v := r.currentAnswers()
					if v != nil {
						fail(v, i)
						return
					}
					r.takeMark("commit", tk, postL, postR)
				}
			}
			if checkEvery > 0 && i%checkEvery == 0 {
				if v := r.oracle(touched, false); v != nil {
					fail(v, i)
					return
				}
			}
		case "restart":
			if v := r.restart(); v != nil {
				fail(v, i)
				return
			}
			if v := r.oracle(nil, true); v != nil {
				v.Signature = "after-restart:" + v.Signature
				fail(v, i)
				return
			}
		case "read":
			rd := r.Readers[op.Reader]
			if rd == nil {
				ds := op.DS
				if ds == "" {
					ds = sc.Datasets[op.Reader%len(sc.Datasets)]
				}
				rd = &FeedReader{DS: ds, Latest: op.Latest}
				r.Readers[op.Reader] = rd
			}
			r.Stats["reader_pages"]++
			if v := rd.ReadPage(r.H, r.M, op.Limit); v != nil {
				fail(v, i)
				return
			}
			r.ev("read r=%d lim=%d idx=%d", op.Reader, op.Limit, rd.Idx)
		case "dup":
			ds := r.H.Dataset(op.DS)
			if ds == nil {
				break
			}
			ok, err := ds.VerifInjectDuplicate(r.H.curie(op.S), time.Now().UnixNano())
			if err != nil {
				fail(viol(sc.Property, "harness", "invalid", "inject duplicate: %v", err), i)
				return
			}
			if ok {
				d := r.M.DS[op.DS]
				if cur := d.LatestOf(markerToFull(op.S)); cur != nil {
					d.ForceAppend(cur)
					r.Stats["legacy_duplicates"]++
					r.ev("dup")
				}
			}
			if v := r.oracle([]string{op.DS}, false); v != nil {
				v.Signature = "after-dup:" + v.Signature
				fail(v, i)
				return
			}
		case "compact":
			if r.H.Dataset(op.DS) == nil {
				break
			}
			before := len(r.M.DS[op.DS].Versions)
			if err := r.H.Compact(op.DS, op.N); err != nil {
				fail(viol(sc.Property, "compaction", "compact-error", "compaction of %s failed: %v", op.DS, err), i)
				return
			}
			r.Stats["compactions"]++
			if v := r.CheckAfterCompaction(op.DS); v != nil {
				fail(v, i)
				return
			}
			r.Stats["versions_compacted"] += int64(before - len(r.M.DS[op.DS].Versions))
			r.ev("compact removed=%d", before-len(r.M.DS[op.DS].Versions))
		case "fullsyncAway":
			// a full sync that lists nothing is started and completed on the dataset: every live entity gets a deleted
			// version. A reader asks its questions while the completion is scanning the dataset (an instant before the
			// deletions are committed) and will ask them again as of that instant later
			ds := r.H.Dataset(op.DS)
			d := r.M.DS[op.DS]
			if ds == nil || d == nil {
				break
			}
			if err := ds.StartFullSync(); err != nil {
				fail(viol(sc.Property, "write", "fullsync-start-failed", "%v", err), i)
				return
			}
			marked := false
			var mv *Violation
			prev := hooks.onPoint
			hooks.onPoint = func(owner any, name string, h int64) {
				if name == "CompleteFullSync.scanEntity" && !marked {
					marked = true
					l, q, v := r.currentAnswers()
					if v != nil {
						mv = v
						return
					}
					r.takeMark("in-completion-scan", time.Now().UnixNano(), l, q)
				}
				if prev != nil {
					prev(owner, name, h)
				}
			}
			err := ds.CompleteFullSync(context.Background())
			hooks.onPoint = prev
			if err != nil || mv != nil {
				if mv == nil {
					mv = viol(sc.Property, "write", "fullsync-complete-failed", "%v", err)
				}
				fail(mv, i)
				return
			}
			type pair struct {
				id  string
				iid uint64
			}
			var todo []pair
			for id := range d.Latest {
				c := d.LatestOf(id)
				if c.Deleted {
					continue
				}
				iid, _ := r.H.Store.VerifIDForURI(r.H.curie(specFromCanon(c)["id"].(string)))
				todo = append(todo, pair{id, iid})
			}
			sort.Slice(todo, func(a, b int) bool { return todo[a].iid < todo[b].iid })
			for _, p := range todo {
				c := d.LatestOf(p.id)
				d.ForceAppend(&CanonEnt{ID: c.ID, Deleted: true, Props: c.Props, Refs: c.Refs})
			}
			r.Stats["full_syncs_completed"]++
			r.Stats["commits"]++
		case "mark":
			l, q, v := r.currentAnswers()
			if v != nil {
				fail(v, i)
				return
			}
			r.takeMark("now", time.Now().UnixNano(), l, q)
		case "pageStart":
			var more []string
			if l, ok := op.M["more"].([]any); ok && !op.Latest {
				for _, x := range l {
					more = append(more, fmt.Sprint(x))
				}
			}
			if v := r.startPaged(relQuery{Start: op.S, Pred: op.DS, Inverse: op.Latest, Scope: scopeOf(op), More: more}, op.Limit); v != nil {
				fail(v, i)
				return
			}
		case "pageContinue":
			if v := r.continuePaged(); v != nil {
				fail(v, i)
				return
			}
		case "readBeyond":
			ds := r.H.Dataset(op.DS)
			if ds != nil {
				since := uint64(1 << 40)
				c, err := ds.GetChanges(since, op.Limit, op.Latest)
				if err != nil || len(c.Entities) != 0 || c.NextToken != since {
					fail(viol("C02", "reader", "beyond-end", "reading %s from position %d beyond the end: err=%v entries=%d next=%d", op.DS, since, err, len(c.Entities), c.NextToken), i)
					return
				}
			}
		default:
			fail(viol(sc.Property, "harness", "invalid", "unknown op kind %q", op.K), i)
			return
		}
	}
	if v := r.continuePaged(); v != nil {
		fail(v, len(sc.Ops))
		return
	}
	if v := r.oracle(nil, true); v != nil {
		fail(v, len(sc.Ops))
	}
	return
}

// lastCommitTime returns the recorded stamp of the versions a write op just stored (0 if none).
func (r *SeqRun) lastCommitTime(op *Op) int64 {
	var ds string
	var ents []Ent
	if op.K == "batch" {
		ds, ents = op.DS, op.Ents
	} else if len(op.Parts) > 0 {
		ds, ents = op.Parts[0].DS, op.Parts[0].Ents
	}
	d := r.H.Dataset(ds)
	if d == nil || len(ents) == 0 {
		return 0
	}
	var best uint64
	res, err := d.GetEntities("", 0)
	if err != nil {
		return 0
	}
	for _, e := range res.Entities {
		if e.Recorded > best {
			best = e.Recorded
		}
	}
	return int64(best)
}
