package verifsim

import (
	"encoding/json"
	"fmt"
	"os"
	"sort"
	"strings"
	"time"

	"github.com/mimiro-io/datahub/internal/server"
)

// HTTP-level sequential executor (C09: full sync protocol; C15, C16, C14 use the same hub).

type syncState struct {
	active   bool
	id       string
	byJob    bool
	seen     map[string]bool
	hasLease bool
	deadline time.Time
}

type HTTPRun struct {
	Sc         *Scenario
	H          *Hub
	M          *Model
	Stats      map[string]int64
	trace      []byte
	Start      time.Time
	Pool       []string
	sync       map[string]*syncState // per dataset
	lease      time.Duration
	jobs       map[string]map[string]any
	secDir     string
	superseded bool // the job sync of the current op was superseded by an HTTP start before it completed
}

func (r *HTTPRun) ev(format string, args ...any) {
	r.trace = append(r.trace, fmt.Sprintf(format, args...)...)
	r.trace = append(r.trace, '\n')
}

// udaBody serialises entities as a UDA payload with a context that uses the default prefix
// for entity ids and "s" for the schema namespace.
func udaBody(ents []Ent) []byte {
	conv := func(s string) string {
		if strings.HasPrefix(s, MkE) {
			return s[len(MkE):] // default namespace "_"
		}
		if strings.HasPrefix(s, MkS) {
			return "s:" + s[len(MkS):]
		}
		return s
	}
	all := []any{map[string]any{"id": "@context", "namespaces": map[string]any{"_": ExE, "s": ExS}}}
	for _, e := range ents {
		all = append(all, mapEntity(e, conv))
	}
	b, _ := json.Marshal(all)
	return b
}

func (r *HTTPRun) st(ds string) *syncState {
	s := r.sync[ds]
	if s == nil {
		s = &syncState{}
		r.sync[ds] = s
	}
	return s
}

// expire applies lease expiry to the model: an expired sync is simply abandoned.
func (r *HTTPRun) expire(ds string) {
	s := r.st(ds)
	if s.active && s.hasLease && time.Now().After(s.deadline) {
		s.active = false
		s.seen = nil
		s.hasLease = false
		r.Stats["model_lease_expiries"]++
	}
}

// complete applies a valid completion to the model: every live entity not written since the
// start of the sync gets exactly one deleted version (in listing order).
func (r *HTTPRun) complete(ds string) {
	s := r.st(ds)
	d := r.M.DS[ds]
	type pair struct {
		id  string
		iid uint64
	}
	var todo []pair
	for id := range d.Latest {
		c := d.LatestOf(id)
		if c.Deleted || s.seen[id] {
			continue
		}
		iid, _ := r.H.Store.VerifIDForURI(r.H.curie(specFromCanon(c)["id"].(string)))
		todo = append(todo, pair{id, iid})
	}
	sort.Slice(todo, func(i, j int) bool { return todo[i].iid < todo[j].iid })
	for _, p := range todo {
		c := d.LatestOf(p.id)
		del := &CanonEnt{ID: c.ID, Deleted: true, Props: c.Props, Refs: c.Refs}
		d.ForceAppend(del)
		r.Stats["model_sync_deletions"]++
	}
	s.active, s.seen, s.hasLease = false, nil, false
}

func boolOf(m map[string]any, k string) bool {
	b, _ := m[k].(bool)
	return b
}

// post performs one POST /datasets/{ds}/entities and applies the protocol model.
func (r *HTTPRun) post(op *Op) *Violation {
	ds := op.DS
	hdr := map[string]string{}
	m := op.M
	if m == nil {
		m = map[string]any{}
	}
	start, end := boolOf(m, "start"), boolOf(m, "end")
	id, _ := m["id"].(string)
	if start {
		hdr["universal-data-api-full-sync-start"] = "true"
	}
	if end {
		hdr["universal-data-api-full-sync-end"] = "true"
	}
	if id != "" {
		hdr["universal-data-api-full-sync-id"] = id
	}
	r.expire(ds)
	s := r.st(ds)
	// decide what the protocol says
	accept, doComplete, expectGone, eitherWay := true, false, false, false
	switch {
	case start:
		*s = syncState{active: true, id: id, seen: map[string]bool{}, hasLease: true, deadline: time.Now().Add(r.lease)}
	case s.active:
		if id == s.id {
			if !s.byJob {
				s.deadline = time.Now().Add(r.lease)
			}
		} else {
			accept = false
		}
	default:
		if id != "" {
			// no sync is running: the hub may treat the batch as a plain write or refuse it
			eitherWay = true
		}
	}
	if accept && end {
		if s.active && !s.byJob {
			doComplete = true
		} else {
			expectGone = true // nothing to complete
		}
	}
	if ms := intOf(op.M, "scanJumpMs"); ms > 0 {
		// the completion scan of this end request takes longer than the lease: the lease was given up when the
		// request was accepted for completion, so nothing may fire any more
		seen := 0
		prev := hooks.onPoint
		hooks.onPoint = func(owner any, name string, h int64) {
			if name == "CompleteFullSync.scanEntity" {
				seen++
				if seen == intOf(op.M, "scanJumpAt") {
					time.Sleep(time.Duration(ms) * time.Millisecond)
					r.Stats["clock_jumps_inside_completion"]++
				}
			}
		}
		defer func() { hooks.onPoint = prev }()
	}
	commitFailed := false
	if boolOf(m, "commitFail") {
		// the data commit of the completion's deletions fails
		armed := false
		prevP, prevF := hooks.onPoint, hooks.onFault
		hooks.onPoint = func(owner any, name string, h int64) {
			if name == "CompleteFullSync.beforeDeleteBatch" {
				armed = true
			}
		}
		hooks.onFault = func(owner any, name string, h int64) error {
			if armed && name == "StoreEntities.dataCommit" {
				armed, commitFailed = false, true
				r.Stats["fault_completion_commit_error"]++
				return fmt.Errorf("injected: commit of the deletions failed")
			}
			return nil
		}
		defer func() { hooks.onPoint, hooks.onFault = prevP, prevF }()
	}
	code, body := r.H.Do("POST", "/datasets/"+ds+"/entities", hdr, udaBody(op.Ents))
	r.Stats["http_posts"]++
	desc := fmt.Sprintf("POST %s start=%v id=%q end=%v (%d entities)", ds, start, id, end, len(op.Ents))
	if eitherWay {
		// no sync running but the request names one: refusing it and treating it as a plain write are both
		// acceptable (the statement only rules on requests that compete with a running sync); nothing may be
		// deleted either way. Decide from the hub's state which of the two happened.
		with := r.M.Clone()
		with.Batch(ds, op.Ents)
		if CheckLatest(r.H, with, ds, r.Pool, nil) == nil && CheckFeed(r.H, with, ds, nil) == nil {
			r.M = with
		}
		r.ev("post with stale id answered %d", code)
		return nil
	}
	if !accept {
		r.Stats["posts_expected_rejected"]++
		if code < 400 {
			return viol("C09", "fullsync-protocol", "foreign-sync-id-accepted", "%s was answered %d; a batch that does not belong to the running sync must be rejected", desc, code)
		}
		r.ev("post rejected %d", code)
		return nil
	}
	if commitFailed {
		// the request's entities are in, its deletions are not, the sync is over
		if code < 400 {
			return viol("C09", "fullsync-protocol", "failed-completion-acknowledged", "%s was answered %d although the completion could not store its deletions", desc, code)
		}
		r.M.Batch(ds, op.Ents)
		*s = syncState{}
		r.ev("post end failed in completion %d", code)
		return nil
	}
	if accept && !expectGone && code != 200 {
		return viol("C09", "fullsync-protocol", fmt.Sprintf("valid-request-rejected:%d", code), "%s was answered %d %s", desc, code, strings.TrimSpace(string(body)))
	}
	// accepted: the entities are written, and count as seen by the running sync
	r.M.Batch(ds, op.Ents)
	if s.active {
		for _, e := range op.Ents {
			s.seen[CanonSpec(e).ID] = true
		}
	}
	if doComplete {
		r.complete(ds)
		r.Stats["http_syncs_completed"]++
	}
	if expectGone && code < 400 {
		return viol("C09", "fullsync-protocol", "end-without-sync-accepted", "%s was answered %d although no sync of this client is running", desc, code)
	}
	r.ev("post ok start=%v end=%v n=%d", start, end, len(op.Ents))
	return nil
}

func (r *HTTPRun) check(where string) *Violation {
	for _, n := range r.M.Names() {
		if r.H.Dataset(n) == nil {
			continue
		}
		if v := CheckLatest(r.H, r.M, n, r.Pool, nil); v != nil {
			v.Property = r.Sc.Property
			v.Oracle = "fullsync-protocol"
			v.Signature = where + ":" + v.Signature
			return v
		}
		if v := CheckFeed(r.H, r.M, n, nil); v != nil {
			v.Property = r.Sc.Property
			v.Oracle = "fullsync-protocol"
			v.Signature = where + ":" + v.Signature
			return v
		}
	}
	return nil
}

// jobSyncOp runs a fullsync job whose sink is the dataset. Operations listed under "during" are
// executed when the pipeline reaches the given point: another client acting while the job runs.
func (r *HTTPRun) jobSyncOp(op *Op) *Violation {
	id := op.S
	cfg := r.jobs[id]
	if cfg == nil {
		return viol("C09", "harness", "invalid", "unknown job %s", id)
	}
	ds := sinkName(cfg)
	var during []any
	if op.M != nil {
		during, _ = op.M["during"].([]any)
	}
	hit := map[string]int{}
	var inner *Violation
	sinkCalls := 0
	singleRejects, maxItems, abandoned := 0, 0, false
	if tr, ok := cfg["triggers"].([]any); ok && len(tr) > 0 {
		if hs, ok := tr[0].(map[string]any)["onError"].([]any); ok {
			for _, h := range hs {
				if hm, _ := h.(map[string]any); hm != nil && strings.EqualFold(fmt.Sprint(hm["errorHandler"]), "log") {
					maxItems = intOf(hm, "maxItems")
				}
			}
		}
	}
	hooks.onFaultOn = func(owner any, name string, subject any, h int64) error {
		if name != "sink.dataset" {
			return nil
		}
		// the sink call writes these entities now (no other client can get in between)
		var ents []Ent
		if list, ok := subject.([]*server.Entity); ok {
			for _, e := range list {
				ents = append(ents, specFromCanon(r.H.Canon(e)))
			}
		}
		sinkCalls++
		if k := intOf(op.M, "sinkFailAt"); k > 0 && sinkCalls == k {
			r.Stats["fault_sink_error"]++
			return errSinkInjected
		}
		if sfx, _ := op.M["rejectSuffix"].(string); sfx != "" {
			for _, e := range ents {
				if strings.HasSuffix(CanonSpec(e).ID, sfx) {
					r.Stats["fault_sink_reject"]++
					if len(ents) == 1 {
						singleRejects++
						if maxItems > 0 && singleRejects >= maxItems {
							abandoned = true // the log handler gives up: the run stops here, its sync is abandoned
						}
					}
					return fmt.Errorf("scripted sink refuses %s", shortURI(CanonSpec(e).ID))
				}
			}
		}
		r.expire(ds)
		r.M.Batch(ds, ents)
		if s := r.st(ds); s.active {
			for _, e := range ents {
				s.seen[CanonSpec(e).ID] = true
			}
		}
		return nil
	}
	hooks.onPoint = func(owner any, name string, h int64) {
		if !strings.HasPrefix(name, "pipeline.full.") {
			return
		}
		hit[name]++
		switch name {
		case "pipeline.full.afterStart":
			// the job's sync begins: it supersedes whatever was running; it has no id and no lease
			*r.st(ds) = syncState{active: true, id: "", byJob: true, seen: map[string]bool{}}
		case "pipeline.full.afterEnd":
			if abandoned && inner == nil {
				inner = viol("C09", "fullsync-protocol", "abandoned-job-sync-completed", "the job's sink refused %d entities, its log handler (maxItems=%d) gave up and the run stopped; the sync it had started was completed all the same, deleting what the run had not written yet", singleRejects, maxItems)
				return
			}
			// the job completed its sync - if it still was the job's sync
			r.expire(ds)
			if s := r.st(ds); s.active && s.byJob {
				r.complete(ds)
				r.Stats["job_syncs_completed"]++
			} else {
				r.Stats["job_syncs_superseded"]++
				r.superseded = true
			}
		}
		for _, dx := range during {
			dm, _ := dx.(map[string]any)
			if dm == nil || dm["at"] != name || intOf(dm, "hit") != hit[name] || inner != nil {
				continue
			}
			var ops []Op
			b, _ := json.Marshal(dm["ops"])
			_ = json.Unmarshal(b, &ops)
			for i := range ops {
				r.Stats["ops_during_job_sync"]++
				if v := r.step(&ops[i]); v != nil {
					inner = v
					return
				}
			}
		}
	}
	var ended bool
	var err error
	if op.M != nil && op.M["cron"] == true {
		// through the job's own cron trigger (error handlers only apply there): jump to its next fire time
		fire := time.Now().Add(6 * time.Hour)
		for _, e := range r.H.Full.Sched.GetScheduleEntries().Entries {
			if e.Next.After(time.Now()) && e.Next.Before(fire) {
				fire = e.Next
			}
		}
		time.Sleep(time.Until(fire) + time.Second)
		ended = r.H.WaitJobsIdle(3 * time.Hour)
		r.Stats["job_syncs_by_cron"]++
	} else {
		_, ended, err = r.H.RunJobToEnd(id, "fullsync", 3*time.Hour)
	}
	hooks.onPoint, hooks.onFaultOn = nil, nil
	if inner != nil {
		return inner
	}
	if err != nil || !ended {
		return viol("C09", "job-run", "run-failed", "fullsync job: %v ended=%v", err, ended)
	}
	if res := r.H.LastResult(id); res != nil && res["lastError"] != "" {
		r.Stats["job_syncs_failed"]++
	}
	r.Stats["job_syncs"]++
	r.ev("jobsync")
	return nil
}

// step executes one operation (also used for operations nested inside a job run).
func (r *HTTPRun) step(op *Op) *Violation {
	if op.Sleep > 0 {
		time.Sleep(time.Duration(op.Sleep))
	} else {
		time.Sleep(time.Nanosecond)
	}
	switch op.K {
	case "post":
		return r.post(op)
	case "batch":
		d := r.H.Dataset(op.DS)
		if d == nil {
			return viol("C09", "harness", "invalid", "no dataset %s", op.DS)
		}
		if err := d.StoreEntities(r.H.Entities(op.Ents)); err != nil {
			return viol("C09", "harness", "invalid", "%v", err)
		}
		r.M.Batch(op.DS, op.Ents)
	case "txnpost":
		conv := func(s string) string {
			if strings.HasPrefix(s, MkE) {
				return s[len(MkE):]
			}
			if strings.HasPrefix(s, MkS) {
				return "s:" + s[len(MkS):]
			}
			return s
		}
		l := []any{}
		for _, e := range op.Ents {
			l = append(l, mapEntity(e, conv))
		}
		b, _ := json.Marshal(map[string]any{"@context": map[string]any{"namespaces": map[string]any{"_": ExE, "s": ExS}}, op.DS: l})
		code, body := r.H.Do("POST", "/transactions", nil, b)
		r.Stats["transactions_posted"]++
		if code != 200 {
			return viol("C09", "fullsync-protocol", fmt.Sprintf("transaction-rejected:%d", code), "POST /transactions writing %d entities to %s was answered %d %s", len(op.Ents), op.DS, code, strings.TrimSpace(string(body)))
		}
		r.expire(op.DS)
		r.M.Batch(op.DS, op.Ents)
		if s := r.st(op.DS); s.active {
			for _, e := range op.Ents {
				s.seen[CanonSpec(e).ID] = true
			}
		}
		r.ev("txnpost n=%d", len(op.Ents))
	case "advance":
		time.Sleep(time.Duration(op.N) * time.Millisecond)
		r.Stats["clock_advances"]++
		for ds := range r.sync {
			r.expire(ds)
		}
		r.ev("advance %dms", op.N)
	}
	return nil
}

// RunHTTPScenario executes profile C09.
func RunHTTPScenario(sc *Scenario) (vd *Verdict) {
	vd = &Verdict{Verdict: "ok", Property: sc.Property, Profile: sc.Profile, Seed: sc.Seed}
	r := &HTTPRun{Sc: sc, M: NewModel(), Stats: map[string]int64{}, Start: time.Now(), sync: map[string]*syncState{}, jobs: map[string]map[string]any{}}
	r.Pool, _ = collectNames(sc)
	r.lease = time.Duration(sc.Knob("leaseTimeoutNs", int64(30*time.Second)))
	if sc.Knobs == nil {
		sc.Knobs = map[string]int64{}
	}
	sc.Knobs["leaseTimeoutNs"] = int64(r.lease)
	r.secDir = NewDir("sec")
	h, err := OpenWebHub(NewDir("webhub"), r.secDir, sc.Knobs, false)
	if err != nil {
		vd.Verdict, vd.Message = "error", err.Error()
		return
	}
	r.H = h
	// a goroutine woken by a timer reads exactly the deadline; a real clock has moved on by then
	hooks.onPointAlways = func(name string) {
		if name == "fullsync.lease.fired" {
			time.Sleep(time.Nanosecond)
		}
	}
	defer func() {
		hooks.onPoint, hooks.onFaultOn, hooks.onPointAlways = nil, nil, nil
		_ = r.H.Close()
		os.RemoveAll(r.H.Dir)
		os.RemoveAll(r.secDir)
	}()
	fail := func(v *Violation, step int) {
		vd.Verdict = "violation"
		if v.Oracle == "harness" {
			vd.Verdict = "invalid"
		}
		vd.Property, vd.Oracle, vd.Signature, vd.Message, vd.Step = sc.Property, v.Oracle, v.Signature, v.Message, step
	}
	defer func() {
		for k, v := range PointHits() {
			if strings.HasPrefix(k, "http.") || strings.HasPrefix(k, "fullsync.") || strings.HasPrefix(k, "go:fullsync") {
				r.Stats["point_"+k] += v
			}
		}
		vd.Stats = r.Stats
		vd.TraceHash = fmt.Sprintf("%x", sha8(r.trace))
		vd.SimNS = int64(time.Since(r.Start))
		vd.Nontrivial = r.Stats["http_posts"] >= 2
	}()
	for _, d := range sc.Datasets {
		if _, err := h.Dsm.CreateDataset(d, nil); err != nil {
			vd.Verdict, vd.Message = "error", err.Error()
			return
		}
		r.M.Create(d)
	}
	for i := range sc.Ops {
		op := &sc.Ops[i]
		switch op.K {
		case "addJob":
			if err := r.H.AddJobJSON(op.M); err != nil {
				fail(viol(sc.Property, "harness", "invalid", "AddJob: %v", err), i)
				return
			}
			r.jobs[fmt.Sprint(op.M["id"])] = op.M
		case "jobsync":
			if v := r.jobSyncOp(op); v != nil {
				fail(v, i)
				return
			}
		default:
			if v := r.step(op); v != nil {
				fail(v, i)
				return
			}
		}
		where := "after-" + op.K
		if op.K == "jobsync" && r.superseded {
			// the job must not complete "its" sync when a client's start has replaced it (was KF-C09-1)
			where = "after-jobsync-superseded-by-http-start"
		}
		r.superseded = false
		if v := r.check(where); v != nil {
			fail(v, i)
			return
		}
	}
	// nothing may happen later either: let every pending lease run out
	time.Sleep(r.lease + time.Second)
	for ds := range r.sync {
		r.expire(ds)
	}
	if v := r.check("after-all-leases-expired"); v != nil {
		fail(v, len(sc.Ops))
	}
	return
}
