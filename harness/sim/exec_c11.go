package verifsim

import (
	"bytes"
	"context"
	"errors"
	"fmt"
	"io"
	"net/http"
	"os"
	"sort"
	"strings"
	"sync"
	"testing/synctest"
	"time"

	"github.com/mimiro-io/datahub/internal/jobs"
	"github.com/mimiro-io/datahub/internal/jobs/source"
)

// C11: every accepted job ends with a recorded outcome; one run per job id; pool bounds.
//
// A hub with the real event bus, cron, job runner and scheduler runs inside the bubble. Jobs are
// assembled from the scheduler's building blocks; client tasks (manual runs, kills, pause / resume,
// re-configuration, writes that fire on-change events, status polling, sleeping so that cron fires)
// run under the cooperative scheduler together with every run goroutine the hub starts itself
// (cron, event, retry, re-run: adopted at their first hook). Sink, transform and store faults are
// planned per arrival count. The run-level invariants are evaluated inside the hooks, the end state
// after the triggers have been removed and the hub has gone idle.

type c11Run struct {
	Sc    *Scenario
	H     *Hub
	S     *Sched
	Stats map[string]int64
	mu    sync.Mutex

	poolFull, poolIncr int
	active             map[string]int
	activeFull         int
	activeIncr         int
	started            map[string]int
	resulted           map[string]int
	lastStart          map[string]time.Time
	accepted           map[string]bool
	viol               *Violation
	faultAt            map[string]map[int]bool
	trace              []byte
	lastActivity       time.Time
	rejectSuffix       []string          // entities whose id ends like this are refused by the dataset sink, always
	runOf              map[uint64]*c11Rec // goroutine id -> the run it is executing
	sourceGone         bool               // the source dataset of the focused copy job has been deleted (variant "source disappears")
	oldAfterGone       int                // deliveries holding entities of the deleted incarnation since then
	everTransform      map[string]bool    // job ids that have a transform in some definition of the scenario
	workersLive        int                // transform workers that have taken their chunk and not yet reported back
	tokReqs            int                // requests to the source that stamps every answer with a new token
	tokByRun           map[uint64]int     // ... per goroutine asking
}

type c11Rec struct {
	id       string
	start    time.Time
	rejected string // a delivery of this run was refused because of this entity
	killed   bool   // a kill of this run has returned: the run's context is cancelled
	killedAt time.Time
	readSince bool // the run has read from its source since its last delivery (or has not delivered yet)
}

func (r *c11Run) ev(format string, args ...any) {
	if traceOut {
		fmt.Fprintf(os.Stderr, "EV "+format+"\n", args...)
	}
	r.trace = append(r.trace, fmt.Sprintf(format, args...)...)
	r.trace = append(r.trace, '\n')
}

func (r *c11Run) fail(v *Violation) {
	if r.viol == nil {
		r.viol = v
	}
}

var errC11Injected = errors.New("injected fault")

// c11Transport answers the HTTP building blocks (source, sink, transform) by host name.
type c11Transport struct{ r *c11Run }

func (t c11Transport) RoundTrip(req *http.Request) (*http.Response, error) {
	var body []byte
	if req.Body != nil {
		body, _ = io.ReadAll(req.Body)
		_ = req.Body.Close()
	}
	t.r.mu.Lock()
	t.r.Stats["http_requests"]++
	t.r.mu.Unlock()
	mk := func(code int, b []byte) *http.Response {
		return &http.Response{StatusCode: code, Status: fmt.Sprintf("%d", code), Proto: "HTTP/1.1", ProtoMajor: 1, ProtoMinor: 1,
			Header: http.Header{"Content-Type": []string{"application/json"}}, Body: io.NopCloser(bytes.NewReader(b)), Request: req, ContentLength: int64(len(b))}
	}
	switch req.URL.Hostname() {
	case "err.sim":
		return nil, errors.New("simulated connection failure")
	case "fail.sim":
		return mk(500, []byte(`{"message":"simulated failure"}`)), nil
	case "slow.sim":
		select {
		case <-time.After(3 * time.Second):
		case <-req.Context().Done():
			return nil, req.Context().Err()
		}
	case "stall.sim":
		// a remote that has stopped answering: nothing comes for a quarter of an hour, unless the caller gives up
		select {
		case <-time.After(15 * time.Minute):
		case <-req.Context().Done():
			return nil, req.Context().Err()
		}
	}
	if req.Method == http.MethodGet && req.URL.Hostname() == "tok.sim" {
		// a source behind a layer that stamps every answer with a fresh continuation token, also the empty ones
		gid := curGid()
		t.r.mu.Lock()
		t.r.tokReqs++
		n := t.r.tokReqs
		t.r.tokByRun[gid]++
		k := t.r.tokByRun[gid]
		if k == 60 {
			t.r.fail(viol("C11", "hang", "run-polls-empty-pages", "one run of a job with an HttpDatasetSource has asked its source %d times in a row and got an empty page each time (each with a new continuation token): the run does not end", k))
		}
		t.r.mu.Unlock()
		if k >= 60 {
			return nil, errors.New("simulated connection failure")
		}
		return mk(200, []byte(fmt.Sprintf(`[{"id":"@context","namespaces":{}},{"id":"@continuation","token":"req-%d"}]`, n))), nil
	}
	if req.Method == http.MethodGet {
		return mk(200, []byte(`[{"id":"@context","namespaces":{}}]`)), nil
	}
	if strings.Contains(req.URL.Path, "transform") {
		return mk(200, body), nil // a transform service that returns what it was given
	}
	return mk(200, []byte(`{}`)), nil
}

func RunC11Scenario(sc *Scenario) (vd *Verdict) {
	vd = &Verdict{Verdict: "ok", Property: "C11", Profile: sc.Profile, Seed: sc.Seed}
	start := time.Now()
	r := &c11Run{Sc: sc, Stats: map[string]int64{}, active: map[string]int{}, started: map[string]int{}, resulted: map[string]int{},
		lastStart: map[string]time.Time{}, accepted: map[string]bool{}, faultAt: map[string]map[int]bool{}}
	r.poolFull, r.poolIncr = int(knobOr(sc.Knobs, "poolFull", 2)), int(knobOr(sc.Knobs, "poolIncr", 4))
	r.runOf = map[uint64]*c11Rec{}
	for _, f := range sc.Faults {
		if f.Kind == "reject" {
			r.rejectSuffix = append(r.rejectSuffix, fmt.Sprint(f.Arg))
			continue
		}
		if r.faultAt[f.At] == nil {
			r.faultAt[f.At] = map[int]bool{}
		}
		r.faultAt[f.At][f.Hit] = true
	}
	r.tokByRun = map[uint64]int{}
	r.everTransform = map[string]bool{}
	noteJob := func(op *Op) {
		if op.K == "addJob" && op.M["transform"] != nil {
			r.everTransform[fmt.Sprint(op.M["id"])] = true
		}
	}
	for i := range sc.Ops {
		noteJob(&sc.Ops[i])
	}
	for _, t := range sc.Tasks {
		for i := range t {
			noteJob(&t[i])
		}
	}
	oldT := http.DefaultTransport
	http.DefaultTransport = c11Transport{r}
	source.VerifSetHTTPClient(&http.Client{Transport: c11Transport{r}})
	defer func() {
		http.DefaultTransport = oldT
		source.VerifSetHTTPClient(nil)
	}()
	h, err := OpenJobsHub(NewDir("c11hub"), sc.Knobs)
	if err != nil {
		vd.Verdict, vd.Message = "error", err.Error()
		return
	}
	r.H = h
	defer func() {
		hooks.sched = nil
		hooks.onFaultOn, hooks.onFault, hooks.onDone = nil, nil, nil
		_ = h.Close()
		os.RemoveAll(h.Dir)
	}()
	for _, d := range sc.Datasets {
		if _, err := h.Dsm.CreateDataset(d, nil); err != nil {
			vd.Verdict, vd.Message = "error", err.Error()
			return
		}
	}
	fail := func(v *Violation) {
		vd.Verdict = "violation"
		if v.Oracle == "harness" {
			vd.Verdict = "invalid"
		}
		vd.Property, vd.Oracle, vd.Signature, vd.Message = "C11", v.Oracle, v.Signature, v.Message
	}
	r.lastActivity = time.Now()
	r.installHooks()
	// sequential prefix: data and job definitions
	for i := range sc.Ops {
		time.Sleep(time.Nanosecond)
		r.clientOp(&sc.Ops[i])
	}
	s := NewSched()
	r.S = s
	s.schedule = sc.Schedule
	if len(sc.Schedule) == 0 {
		if seed, ok := sc.Knobs["schedSeed"]; ok {
			s.gen = NewG(uint64(seed))
			s.pPreempt = float64(sc.Knob("preemptPct", 20)) / 100
		}
	}
	s.MaxSteps = int(sc.Knob("maxSteps", 25000))
	s.preempt["dataset.write"] = false
	s.preempt["dsm.lock"] = false
	s.preempt["raffle.mu"] = sc.Knob("preemptRaffle", 1) == 1
	s.IdleMax = 6 * time.Hour
	hooks.sched = s
	clientsLeft := len(sc.Tasks)
	for ti := range sc.Tasks {
		ops := sc.Tasks[ti]
		s.Spawn(fmt.Sprintf("T%d", ti), h.Full.Runner, func() {
			defer func() {
				r.mu.Lock()
				clientsLeft--
				r.mu.Unlock()
			}()
			for i := range ops {
				r.clientOp(&ops[i])
			}
		})
	}
	// The finale stays under the scheduler (a goroutine blocked on a real mutex whose holder sleeps would stop
	// the bubble's clock for good): when the clients are done the triggers go away; whatever is running,
	// queued for a retry or due for a re-run comes to an end
	idle := false
	s.Spawn("finale", h.Full.Runner, func() {
		for {
			r.mu.Lock()
			n := clientsLeft
			r.mu.Unlock()
			if n == 0 {
				break
			}
			time.Sleep(250 * time.Millisecond)
		}
		var ids []string
		r.mu.Lock()
		for id := range r.accepted {
			ids = append(ids, id)
		}
		r.mu.Unlock()
		sort.Strings(ids)
		for _, id := range ids {
			func() {
				defer func() { _ = recover() }()
				_ = h.Full.Sched.PauseJob(id)
			}()
		}
		// idle: no run holds a slot and none has started or ended for longer than any retry or re-run delay
		deadline := time.Now().Add(3 * time.Hour)
		for time.Now().Before(deadline) {
			r.mu.Lock()
			act := r.activeFull + r.activeIncr
			quiet := time.Since(r.lastActivity)
			r.mu.Unlock()
			if act == 0 && quiet > 2*time.Minute && s.AutoAlive() == 0 && len(h.Full.Sched.GetRunningJobs()) == 0 {
				idle = true
				break
			}
			time.Sleep(20 * time.Second)
		}
	})
	s.ClientsOnly = true
	s.Run()
	s.Drain()
	hooks.sched = nil
	for k, v := range s.Stats {
		r.Stats[k] = v
	}
	r.Stats["steps"] = int64(s.Steps)
	if len(sc.Schedule) == 0 && s.gen != nil {
		sc.Schedule = append([]int(nil), s.Chosen...)
		delete(sc.Knobs, "schedSeed")
	}
	defer func() {
		for k, v := range PointHits() {
			if strings.HasPrefix(k, "job.") || strings.HasPrefix(k, "go:job.") {
				r.Stats["point_"+k] += v
			}
		}
		vd.Stats = r.Stats
		vd.TraceHash = fmt.Sprintf("%x", sha8(append(append([]byte{}, r.trace...), s.trace...)))
		vd.SimNS = int64(time.Since(start))
		runs := int64(0)
		for _, n := range r.started {
			runs += int64(n)
		}
		r.Stats["runs_started"] = runs
		vd.Nontrivial = runs >= 2
	}()
	if s.Violation != nil {
		fail(s.Violation)
		return
	}
	if r.viol != nil {
		fail(r.viol)
		return
	}
	if s.Stats["budget_exhausted"] > 0 {
		vd.Verdict, vd.Message = "invalid", "step budget exhausted"
		return
	}
	for _, rc := range s.Races {
		if strings.HasPrefix(rc, "runner.scheduledJobs") {
			fail(viol("C11", "lockset-race", "runner.scheduledJobs:"+raceSites(rc), "the runner's map of scheduled jobs is read and written by concurrent requests without a common lock (concurrent map writes end the process): %s", rc))
			return
		}
		if strings.HasPrefix(rc, "raffle.running") {
			fail(viol("C11", "lockset-race", "raffle.running:"+raceSites(rc), "the map of running jobs is read and written by concurrent goroutines without a common lock (a concurrent map read and write ends the process): %s", rc))
			return
		}
	}
	synctest.Wait()
	full, incr, running := h.Full.Runner.VerifTickets()
	if !idle {
		fail(viol("C11", "hang", "job-never-ends", "runs of %v still hold their slot 3h of simulated time after every trigger was removed (unfinished goroutines: %v)", running, s.AutoAliveNames()))
		return
	}
	if full != r.poolFull || incr != r.poolIncr || len(running) != 0 {
		fail(viol("C11", "slots", "slot-not-released", "hub idle, but free slots are fullsync=%d incremental=%d (configured %d/%d), running=%v", full, incr, r.poolFull, r.poolIncr, running))
		return
	}
	hist := map[string]time.Time{}
	for _, jr := range h.Full.Sched.GetJobHistory() {
		hist[jr.ID] = jr.Start
	}
	var sids []string
	for id := range r.started {
		sids = append(sids, id)
	}
	sort.Strings(sids)
	for _, id := range sids {
		st, ok := hist[id]
		if !ok {
			fail(viol("C11", "result", "run-without-result", "job %s ran %d time(s) but has no stored run result", id, r.started[id]))
			return
		}
		if !st.Equal(r.lastStart[id]) {
			fail(viol("C11", "result", "run-without-result", "the last run of job %s started at %s; the stored result is of the run started at %s (%d runs, %d results written)",
				id, r.lastStart[id].Format(time.RFC3339Nano), st.Format(time.RFC3339Nano), r.started[id], r.resulted[id]))
			return
		}
		r.Stats["result_checks"]++
	}
	return
}

func (r *c11Run) installHooks() {
	hooks.onPointAlways = func(name string) {
		if name == "ProcessChangesRaw.begin" || name == "MapEntitiesRaw.begin" {
			gid := curGid()
			r.mu.Lock()
			if rec := r.runOf[gid]; rec != nil {
				rec.readSince = true
			}
			r.mu.Unlock()
		}
		if name == "transform.worker.done" {
			r.mu.Lock()
			r.workersLive--
			r.mu.Unlock()
		}
	}
	hooks.onFaultOn = func(owner any, name string, subject any, hit int64) error {
		// anything that calls into the hub (and may park at a hook there) happens before the harness lock is taken
		gid := curGid()
		// whether a kill of this run had returned when the run arrived here: expanding the ids below goes through the
		// hub's namespace lock and may park the run, and a kill that lands then is not one the run could have seen
		r.mu.Lock()
		killedOnArrival := false
		if rec := r.runOf[gid]; rec != nil {
			killedOnArrival = rec.killed
		}
		r.mu.Unlock()
		var sinkIDs []string
		if name == "sink.dataset" && (len(r.rejectSuffix) > 0 || r.Sc.Knob("dropOracle", 0) == 1) {
			sinkIDs = entIDs(r.H, subject)
		}
		r.mu.Lock()
		defer r.mu.Unlock()
		switch name {
		case "job.afterBorrow":
			id, full, event, ok := jobs.VerifJobInfo(subject)
			if !ok {
				return nil
			}
			r.ev("start %s full=%v event=%v", id, full, event)
			if r.active[id] > 0 {
				r.fail(viol("C11", "overlap", "two-runs-of-one-job", "a run of job %s started while another run of the same job holds its slot", id))
			}
			r.lastActivity = time.Now()
			r.runOf[gid] = &c11Rec{id: id, start: time.Now(), readSince: false}
			delete(r.tokByRun, gid)
			r.active[id]++
			r.started[id]++
			r.lastStart[id] = time.Now()
			if full {
				r.activeFull++
				if r.activeFull > r.poolFull {
					r.fail(viol("C11", "pools", "fullsync-pool-exceeded", "%d fullsync runs at once, pool is %d", r.activeFull, r.poolFull))
				}
			} else {
				r.activeIncr++
				if r.activeIncr > r.poolIncr {
					r.fail(viol("C11", "pools", "incremental-pool-exceeded", "%d incremental runs at once, pool is %d", r.activeIncr, r.poolIncr))
				}
			}
			if int64(r.activeFull+r.activeIncr) > r.Stats["max_concurrent_runs"] {
				r.Stats["max_concurrent_runs"] = int64(r.activeFull + r.activeIncr)
			}
		case "job.beforeReturn":
			id, full, _, ok := jobs.VerifJobInfo(subject)
			if !ok {
				return nil
			}
			r.ev("end %s", id)
			if r.workersLive > 0 && r.everTransform[id] {
				// the transform workers of a batch belong to the run that started them; when the run gives its slot back
				// (the next run of the job may start) none of them is still at work. Judged when no other job with a
				// transform is running
				others := 0
				for oid, n := range r.active {
					if oid != id && n > 0 && r.everTransform[oid] {
						others++
					}
				}
				if others == 0 {
					r.fail(viol("C11", "overlap", "transform-workers-outlive-their-run", "the run of job %s gives its slot back while %d of its transform workers are still at work on their chunks", id, r.workersLive))
				}
			}
			if rec := r.runOf[gid]; rec != nil && rec.killed && time.Since(rec.killedAt) > 5*time.Minute {
				r.fail(viol("C11", "kill", "killed-run-lingers", "job %s was killed while its run (started %s) held its slot; the run gave the slot back %s of simulated time after the kill had returned", id, rec.start.Format(time.RFC3339Nano), time.Since(rec.killedAt).Round(time.Second)))
			}
			r.lastActivity = time.Now()
			r.active[id]--
			if full {
				r.activeFull--
			} else {
				r.activeIncr--
			}
		case "job.afterResult":
			if id, _, _, ok := jobs.VerifJobInfo(subject); ok {
				r.resulted[id]++
			}
		case "sink.dataset", "transform.batch":
			if name == "transform.batch" && r.runOf[gid] == nil {
				r.workersLive++ // (in a worker goroutine: the parallel path of the incremental pipeline)
				r.Stats["transform_worker_chunks"]++
			}
			if rec := r.runOf[gid]; rec != nil {
				// the pipeline looks at the run's context before it hands a batch to the transform or, without one, to
				// the sink; nothing yields between that look and this hook. A batch that starts after a kill of the
				// run has returned was not stopped by it
				// (with a transform the hook of a batch start fires in a worker goroutine: only jobs that never have a
				// transform in this scenario are judged)
				// (a sink wrapped by a log handler is called several times for one batch when it splits it: a delivery starts
				// a batch only if the run has read from its source since the delivery before)
				starts := name == "sink.dataset" && !r.everTransform[rec.id] && rec.readSince
				if name == "sink.dataset" {
					rec.readSince = false
				}
				if starts && killedOnArrival {
					r.fail(viol("C11", "kill", "kill-ignored", "job %s was killed while its run (started %s) held its slot; after the kill had returned the run went on and handed another batch to its %s", rec.id, rec.start.Format(time.RFC3339Nano), strings.SplitN(name, ".", 2)[0]))
				}
			}
			if rec := r.runOf[gid]; name == "sink.dataset" && r.sourceGone && rec != nil && rec.id == "job1" {
				// the source dataset was deleted (and perhaps created again, empty) while the run was under way. The batch
				// that had been read before may still arrive; after it nothing of the deleted dataset may
				for _, id := range sinkIDs {
					if strings.Contains(id, "/old") {
						r.oldAfterGone++
						if r.oldAfterGone >= 2 {
							r.fail(viol("C11", "deleted-source", "run-delivers-deleted-dataset", "the source dataset of a running copy job was deleted; %d deliveries later the run still hands entities of the deleted dataset to its sink (%s)", r.oldAfterGone, shortURI(id)))
						}
						break
					}
				}
			}
			if name == "sink.dataset" && len(r.rejectSuffix) > 0 {
				for _, id := range sinkIDs {
					for _, sfx := range r.rejectSuffix {
						if strings.HasSuffix(id, sfx) {
							r.Stats["fault_sink_reject"]++
							if rec := r.runOf[gid]; rec != nil {
								rec.rejected = id
							}
							return fmt.Errorf("scripted sink refuses %s", shortURI(id))
						}
					}
				}
			}
			if r.faultAt[name][int(hit)] {
				r.Stats["fault_"+name]++
				return errC11Injected
			}
		}
		return nil
	}
	// the end of a run's goroutine: its outcome is settled (error handlers have amended the stored result)
	hooks.onDone = func(owner any, name string) {
		if name != "job.run" {
			return
		}
		gid := curGid()
		r.mu.Lock()
		rec := r.runOf[gid]
		delete(r.runOf, gid)
		r.mu.Unlock()
		if rec == nil || rec.rejected == "" {
			return
		}
		for _, jr := range r.H.Full.Sched.GetJobHistory() {
			if jr.ID == rec.id && jr.Start.Equal(rec.start) {
				r.mu.Lock()
				r.Stats["outcome_checks"]++
				if jr.LastError == "" {
					r.fail(viol("C11", "result", "failed-run-recorded-as-success", "the run of job %s started at %s had a delivery refused by the sink (entity %s), but its stored result has no error", rec.id, rec.start.Format(time.RFC3339Nano), shortURI(rec.rejected)))
				}
				r.mu.Unlock()
			}
		}
	}
	hooks.onFault = func(owner any, name string, hit int64) error {
		r.mu.Lock()
		defer r.mu.Unlock()
		if r.faultAt[name][int(hit)] {
			r.Stats["fault_"+name]++
			return errC11Injected
		}
		return nil
	}
}

// clientOp performs one client request. A panic inside a request is what the HTTP layer's recover
// middleware turns into a 500: the request failed, the hub lives on.
func (r *c11Run) clientOp(op *Op) {
	defer func() {
		if p := recover(); p != nil {
			r.mu.Lock()
			r.Stats["client_panics"]++
			r.mu.Unlock()
		}
	}()
	if op.Sleep > 0 {
		time.Sleep(time.Duration(op.Sleep))
	}
	h := r.H
	sch := h.Full.Sched
	count := func(k string) {
		r.mu.Lock()
		r.Stats[k]++
		r.mu.Unlock()
	}
	switch op.K {
	case "batch":
		ds := h.Dataset(op.DS)
		if ds == nil {
			return
		}
		if err := ds.StoreEntities(h.Entities(op.Ents)); err == nil {
			// what the HTTP handler does after a stored batch
			h.Full.Bus.Emit(context.Background(), "dataset."+op.DS, nil)
			h.Full.Bus.Emit(context.Background(), "dataset.core.Dataset", nil)
			count("commits")
		}
	case "addJob":
		id := fmt.Sprint(op.M["id"])
		if err := h.AddJobJSON(op.M); err != nil {
			count("jobs_rejected")
			return
		}
		count("jobs_accepted")
		r.mu.Lock()
		r.accepted[id] = true
		r.mu.Unlock()
	case "deleteJob":
		_ = sch.DeleteJob(op.S)
		count("deletes")
	case "runJob":
		if _, err := sch.RunJob(op.S, op.DS); err != nil {
			count("manual_runs_refused")
		} else {
			count("manual_runs")
		}
	case "killJob":
		cur := func() *c11Rec {
			r.mu.Lock()
			defer r.mu.Unlock()
			for _, rec := range r.runOf {
				if rec.id == op.S && r.active[op.S] > 0 {
					return rec
				}
			}
			return nil
		}
		before := cur()
		sch.KillJob(op.S)
		if after := cur(); before != nil && after == before {
			r.mu.Lock()
			before.killed = true
			before.killedAt = time.Now()
			r.Stats["kills_of_a_running_job"]++
			r.mu.Unlock()
		}
		count("kills")
	case "pause":
		_ = sch.PauseJob(op.S)
		count("pauses")
	case "unpause":
		_ = sch.UnpauseJob(op.S)
		count("resumes")
	case "status":
		if !h.Full.Runner.VerifRunningIsCopy() {
			r.mu.Lock()
			r.fail(viol("C11", "shared-state", "running-jobs-map-shared", "the status listing is handed the raffle's live map of running jobs: iterating it while a run starts or ends is a concurrent map iteration and map write, which ends the process"))
			r.mu.Unlock()
		}
		_ = sch.GetRunningJobs()
		_ = sch.GetRunningJob(op.S)
		_ = sch.GetScheduleEntries()
		_ = sch.GetJobHistory()
		count("status_polls")
	case "deleteDataset":
		if at, _ := op.M["after"].(string); at != "" {
			// this client acts when a run has reached a given point of its pipeline for the n-th time (or never does)
			want := int64(intOf(op.M, "hit"))
			for i := 0; i < 300 && PointHits()[at] < want; i++ {
				hooks.Point(h.Store.VerifDB(), "harness.wait")
			}
			if PointHits()[at] >= want {
				count("targeted_dataset_deletes")
			}
		}
		if err := h.Dsm.DeleteDataset(op.DS); err == nil {
			count("datasets_deleted")
			if r.Sc.Knob("dropOracle", 0) == 1 && op.DS == "dA" {
				r.mu.Lock()
				r.sourceGone = true
				r.mu.Unlock()
			}
		}
	case "createDataset":
		if _, err := h.Dsm.CreateDataset(op.DS, nil); err == nil {
			count("datasets_created")
		}
	case "sleep":
		time.Sleep(time.Duration(op.N) * time.Millisecond)
	}
}
