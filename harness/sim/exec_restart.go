package verifsim

import (
	"context"
	"crypto/sha256"
	"encoding/json"
	"fmt"
	"os"
	"sort"
	"strings"
	"time"

	"github.com/mimiro-io/datahub/internal/security"
	"github.com/mimiro-io/datahub/internal/server"
)

// C14: stopping and starting the hub is observably a no-op.

// Observe produces the canonical snapshot of everything a client can read (DESIGN appendix B).
// The result maps section names to canonical strings; sections are compared one by one.
func Observe(h *Hub, pool []string) map[string]string {
	out := map[string]string{}
	names := h.Store.VerifDatasetNames()
	sort.Strings(names)
	out["datasets"] = strings.Join(names, ",")
	for _, n := range names {
		ds := h.Dataset(n)
		if ds == nil {
			continue
		}
		if res, err := ds.GetEntities("", 0); err == nil {
			l := canonList(h, res.Entities)
			sort.Strings(l)
			out["listing:"+n] = strings.Join(l, "\n")
		} else {
			out["listing:"+n] = "error " + err.Error()
		}
		if ch, err := ds.GetChanges(0, 0, false); err == nil {
			out["feed:"+n] = strings.Join(canonList(h, ch.Entities), "\n")
			out["feed-token:"+n] = fmt.Sprint(ch.NextToken)
		}
		if ch, err := ds.GetChanges(0, 0, true); err == nil {
			out["latest-feed:"+n] = strings.Join(canonList(h, ch.Entities), "\n")
		}
		out["settings:"+n] = fmt.Sprintf("proxy=%v virtual=%v public=%v id=%d", ds.ProxyConfig != nil, ds.VirtualDatasetConfig != nil, ds.PublicNamespaces, ds.InternalID)
	}
	for _, id := range pool {
		if e, err := h.Store.GetEntity(h.curie(id), nil, true); err == nil {
			out["lookup:"+id] = canonLookup(h, e)
		}
		for _, inv := range []bool{false, true} {
			if res, err := queryRelated(h, id, "*", inv, nil, 0); err == nil {
				g, _ := relSet(h, res.Relations)
				out[fmt.Sprintf("related:%s:%v", id, inv)] = pairsString(g)
			}
		}
	}
	ns := h.Store.NamespaceManager.GetPrefixToExpansionMap()
	out["namespaces"] = js(ns)
	if h.Full != nil && h.Full.Sched != nil {
		jobs := h.Full.Sched.ListJobs()
		var jl []string
		for _, j := range jobs {
			b, _ := json.Marshal(j)
			jl = append(jl, string(b))
			if st, err := h.Full.Sched.GetJobState(j.ID); err == nil && st != nil {
				out["job-token:"+j.ID] = st.ContinuationToken
			}
		}
		sort.Strings(jl)
		out["jobs"] = strings.Join(jl, "\n")
		var hl []string
		for _, r := range h.Full.Sched.GetJobHistory() {
			b, _ := json.Marshal(r)
			hl = append(hl, string(b))
		}
		sort.Strings(hl)
		out["job-history"] = strings.Join(hl, "\n")
	}
	if h.Full != nil && h.Full.Web != nil && h.Full.Web.Core != nil {
		core := h.Full.Web.Core
		var cl []string
		for id, c := range core.GetClients() {
			cl = append(cl, fmt.Sprintf("%s:%x:%v", id, sha256.Sum256(c.PublicKey), c.Deleted))
		}
		sort.Strings(cl)
		out["clients"] = strings.Join(cl, ",")
		acls := core.GetAllAccessControls()
		var al []string
		for id, l := range acls {
			b, _ := json.Marshal(l)
			al = append(al, id+"="+string(b))
		}
		sort.Strings(al)
		out["acls"] = strings.Join(al, ";")
		if h.Full.Web.TPS != nil {
			pl, _ := h.Full.Web.TPS.ListProviders()
			var l []string
			for _, p := range pl {
				b, _ := json.Marshal(p)
				l = append(l, string(b))
			}
			sort.Strings(l)
			out["providers"] = strings.Join(l, "\n")
		}
	}
	return out
}

func sectionClass(k string) string {
	if i := strings.Index(k, ":"); i > 0 {
		return k[:i]
	}
	return k
}

// RunRestartScenario executes profile C14.
func RunRestartScenario(sc *Scenario) (vd *Verdict) {
	vd = &Verdict{Verdict: "ok", Property: "C14", Profile: sc.Profile, Seed: sc.Seed}
	stats := map[string]int64{}
	start := time.Now()
	var trace []byte
	ev := func(f string, a ...any) { trace = append(trace, fmt.Sprintf(f, a...)+"\n"...) }
	pool, _ := collectNames(sc)
	dir, secDir := NewDir("c14hub"), NewDir("c14sec")
	h, err := OpenWebHub(dir, secDir, sc.Knobs, false)
	if err != nil {
		vd.Verdict, vd.Message = "error", err.Error()
		return
	}
	defer func() {
		_ = h.Close()
		os.RemoveAll(dir)
		os.RemoveAll(secDir)
	}()
	fail := func(v *Violation, step int) {
		vd.Verdict = "violation"
		if v.Oracle == "harness" {
			vd.Verdict = "invalid"
		}
		vd.Property, vd.Oracle, vd.Signature, vd.Message, vd.Step = "C14", v.Oracle, v.Signature, v.Message, step
	}
	defer func() {
		vd.Stats = stats
		vd.TraceHash = fmt.Sprintf("%x", sha8(trace))
		vd.SimNS = int64(time.Since(start))
		vd.Nontrivial = stats["restarts"] >= 1 && stats["ops"] >= 2
	}()
	for _, d := range sc.Datasets {
		if _, err := h.Dsm.CreateDataset(d, nil); err != nil {
			vd.Verdict, vd.Message = "error", err.Error()
			return
		}
	}
	keys := map[string][]byte{"client1": []byte("pem-of-client1"), "client2": []byte("pem-of-client2")}
	jobsCfg := map[string]map[string]any{}
	var outcomes []bool
	for i := range sc.Ops {
		op := &sc.Ops[i]
		time.Sleep(time.Duration(max64(op.Sleep, 1)))
		stats["ops"]++
		var oerr error
		switch op.K {
		default:
			oerr = c14Apply(h, op, jobsCfg, keys, stats)
		case "restart":
			before := Observe(h, pool)
			deletedBefore := map[uint32]bool{}
			for k := range h.Store.VerifDeletedDatasets() {
				deletedBefore[k] = true
			}
			if err := h.Close(); err != nil {
				fail(viol("C14", "restart", "close-failed", "%v", err), i)
				return
			}
			nh, err := OpenWebHub(dir, secDir, sc.Knobs, false)
			if err != nil {
				fail(viol("C14", "restart", "reopen-failed", "%v", err), i)
				return
			}
			h = nh
			// what the application does when it starts: the scheduler loads the stored job definitions and adds them again
			if err := h.Full.Sched.Start(context.Background()); err != nil {
				fail(viol("C14", "restart", "scheduler-start-failed", "%v", err), i)
				return
			}
			stats["restarts"]++
			after := Observe(h, pool)
			for _, k := range sortedKeys(before) {
				if after[k] != before[k] {
					fail(viol("C14", "restart-noop", "differs:"+sectionClass(k), "after a restart %q differs:\nbefore: %s\nafter:  %s", k, clip(before[k]), clip(after[k])), i)
					return
				}
			}
			for _, k := range sortedKeys(after) {
				if _, ok := before[k]; !ok {
					fail(viol("C14", "restart-noop", "appeared:"+sectionClass(k), "after a restart %q appeared: %s", k, clip(after[k])), i)
					return
				}
			}
			// writes after the restart behave as if it had not happened
			rs, v := RawConsistency(h, "C14")
			if v != nil {
				fail(v, i)
				return
			}
			for id := range deletedBefore {
				if !h.Store.VerifDeletedDatasets()[id] {
					fail(viol("C14", "restart-noop", "deleted-dataset-forgotten", "dataset id %d was deleted before the restart and is no longer recorded as deleted", id), i)
					return
				}
			}
			probeNames := h.Store.VerifDatasetNames()
			sort.Strings(probeNames)
			for _, n := range probeNames {
				if n == "core.Dataset" {
					continue
				}
				ds := h.Dataset(n)
				fresh := []Ent{{"id": fmt.Sprintf("%spost%d", MkE, stats["restarts"]), "props": map[string]any{MkS + "a0": "x"}, "refs": map[string]any{}}}
				time.Sleep(time.Nanosecond)
				if err := ds.StoreEntities(h.Entities(fresh)); err != nil {
					fail(viol("C14", "restart-noop", "write-rejected-after-restart", "%v", err), i)
					return
				}
				seqs, _ := ds.VerifChangeKeys()
				if old, had := rs.MaxSeq[ds.InternalID]; had && len(seqs) > 0 && seqs[len(seqs)-1] <= old {
					fail(viol("C14", "restart-noop", "change-position-reused", "dataset %s: the first write after the restart got change position %d, the maximum before was %d", n, seqs[len(seqs)-1], old), i)
					return
				}
				iid, ok := h.Store.VerifIDForURI(h.curie(fresh[0]["id"].(string)))
				if !ok || iid <= rs.MaxInternalID {
					fail(viol("C14", "restart-noop", "internal-id-reused", "the first new identifier after the restart got internal id %d, the maximum before was %d", iid, rs.MaxInternalID), i)
					return
				}
				break
			}
			// ... and a dataset created now gets an internal id no dataset, live or deleted, ever had
			var maxDs uint32
			for _, n := range h.Store.VerifDatasetNames() {
				if d := h.Dataset(n); d != nil && d.InternalID > maxDs {
					maxDs = d.InternalID
				}
			}
			for id := range h.Store.VerifDeletedDatasets() {
				if id > maxDs {
					maxDs = id
				}
			}
			probe, err := h.Dsm.CreateDataset(fmt.Sprintf("after%d", stats["restarts"]), nil)
			if err != nil || probe == nil {
				fail(viol("C14", "restart-noop", "create-rejected-after-restart", "%v", err), i)
				return
			}
			if probe.InternalID <= maxDs {
				fail(viol("C14", "restart-noop", "dataset-id-reused", "the first dataset created after the restart got internal id %d; ids up to %d are taken by existing or deleted datasets", probe.InternalID, maxDs), i)
				return
			}
			ev("restart")
		}
		if oerr != nil {
			stats["op_errors"]++
		}
		outcomes = append(outcomes, oerr != nil)
		ev("%s err=%v", op.K, oerr != nil)
	}
	// the same history on a twin hub that is never restarted: every request must have had the same outcome and the
	// two hubs must answer alike (run times aside) - a restart must not show in how later requests are treated
	tdir, tsec := NewDir("c14twin"), NewDir("c14twinsec")
	th, err := OpenWebHub(tdir, tsec, sc.Knobs, false)
	if err != nil {
		vd.Verdict, vd.Message = "error", err.Error()
		return
	}
	defer func() {
		_ = th.Close()
		os.RemoveAll(tdir)
		os.RemoveAll(tsec)
	}()
	for _, d := range sc.Datasets {
		if _, err := th.Dsm.CreateDataset(d, nil); err != nil {
			vd.Verdict, vd.Message = "error", err.Error()
			return
		}
	}
	tjobs := map[string]map[string]any{}
	tstats := map[string]int64{}
	var nres int64
	for i := range sc.Ops {
		op := &sc.Ops[i]
		time.Sleep(time.Duration(max64(op.Sleep, 1)))
		var oerr error
		if op.K == "restart" {
			nres++
			c14Probe(th, nres)
		} else {
			oerr = c14Apply(th, op, tjobs, keys, tstats)
		}
		if (oerr != nil) != outcomes[i] {
			fail(viol("C14", "restart-twin", "request-outcome-differs:"+op.K, "operation %d (%s %s%s) %s on the hub that was restarted %d time(s) before it and %s on a hub that went through the same history without restarts (%v)", i, op.K, op.DS, op.S, okOrNot(!outcomes[i]), nres, okOrNot(oerr == nil), oerr), i)
			return
		}
	}
	stats["twin_histories"]++
	a, b := Observe(h, pool), Observe(th, pool)
	for _, k := range sortedKeys(b) {
		if sectionClass(k) == "job-history" {
			continue
		}
		if a[k] != b[k] {
			fail(viol("C14", "restart-twin", "differs:"+sectionClass(k), "at the end of the history %q differs between the hub that was restarted and a hub that went through the same history without restarts:\nrestarted: %s\ntwin:      %s", k, clip(a[k]), clip(b[k])), len(sc.Ops))
			return
		}
	}
	return
}

func okOrNot(ok bool) string {
	if ok {
		return "succeeded"
	}
	return "failed"
}

// c14Apply performs one operation of a C14 history on hub h (everything but the restart itself).
func c14Apply(h *Hub, op *Op, jobsCfg map[string]map[string]any, keys map[string][]byte, stats map[string]int64) (oerr error) {
	switch op.K {
	case "batch":
		if ds := h.Dataset(op.DS); ds != nil {
			oerr = ds.StoreEntities(h.Entities(op.Ents))
		}
	case "txn":
		t := &server.Transaction{DatasetEntities: map[string][]*server.Entity{}}
		ok := true
		for _, p := range op.Parts {
			if h.Dataset(p.DS) == nil {
				ok = false
			}
			t.DatasetEntities[p.DS] = h.Entities(p.Ents)
		}
		if ok {
			oerr = h.Store.ExecuteTransaction(t)
		}
	case "createDataset":
		_, oerr = h.Dsm.CreateDataset(op.DS, settingsFromOp(op).config())
	case "deleteDataset":
		if h.Dataset(op.DS) != nil {
			oerr = h.Dsm.DeleteDataset(op.DS)
		}
	case "setPublicNamespaces":
		// the way a client changes a dataset's public namespaces: it stores the dataset's entity in core.Dataset
		if h.Dataset(op.DS) != nil {
			info, err := h.Store.NamespaceManager.GetDatasetNamespaceInfo()
			if err == nil {
				me, err := h.Store.GetEntity(info.DatasetPrefix+":"+op.DS, []string{"core.Dataset"}, true)
				if err == nil && me != nil {
					l := []interface{}{}
					for _, x := range op.A {
						l = append(l, x)
					}
					me.Properties[info.PublicNamespacesKey] = l
					oerr = h.Dataset("core.Dataset").StoreEntities([]*server.Entity{me})
				}
			}
		}
	case "renameDataset":
		if h.Dataset(op.DS) != nil && h.Dataset(op.DS2) == nil {
			_, oerr = h.Dsm.UpdateDataset(op.DS, &server.UpdateDatasetConfig{ID: op.DS2})
		}
	case "addJob":
		if src, ok := op.M["source"].(map[string]any); ok && src["Name"] != nil && h.Dataset(fmt.Sprint(src["Name"])) == nil {
			break
		}
		oerr = h.AddJobJSON(op.M)
		if oerr == nil {
			jobsCfg[fmt.Sprint(op.M["id"])] = op.M
		}
	case "pauseJob":
		if jobsCfg[op.S] != nil {
			oerr = h.Full.Sched.PauseJob(op.S)
		}
	case "resumeJob":
		if jobsCfg[op.S] != nil {
			oerr = h.Full.Sched.UnpauseJob(op.S)
		}
	case "deleteJob":
		if jobsCfg[op.S] != nil {
			oerr = h.Full.Sched.DeleteJob(op.S)
			delete(jobsCfg, op.S)
		}
	case "run":
		if jobsCfg[op.S] != nil {
			_, _, _ = h.RunJobToEnd(op.S, op.DS, time.Hour)
			stats["job_runs"]++
		}
	case "registerClient":
		pk := keys[op.S]
		if op.N == 1 {
			pk = append([]byte("second key of "+op.S+"\n"), pk...) // the client is registered again with another key
		}
		h.Full.Web.Core.RegisterClient(&security.ClientInfo{ClientID: op.S, PublicKey: pk})
	case "deleteClient":
		h.Full.Web.Core.RegisterClient(&security.ClientInfo{ClientID: op.S, Deleted: true})
	case "setAcl":
		var acl []*security.AccessControl
		b, _ := json.Marshal(op.A)
		_ = json.Unmarshal(b, &acl)
		h.Full.Web.Core.SetClientAccessControls(op.S, acl)
	case "deleteAcl":
		h.Full.Web.Core.DeleteClientAccessControls(op.S)
	case "addProvider":
		oerr = h.Full.Web.TPS.Add(security.ProviderConfig{Name: op.S, Type: "basic", User: &security.ValueReader{Type: "text", Value: "u" + op.S}, Password: &security.ValueReader{Type: "text", Value: "p"}})
	case "deleteProvider":
		_ = h.Full.Web.TPS.DeleteProvider(op.S)
	}
	return oerr
}

// c14Probe does, without a restart, the writes that follow every restart of a C14 history (a new entity in the first
// dataset, a new dataset), so that a twin hub that is never restarted goes through the same history.
func c14Probe(h *Hub, n int64) {
	names := h.Store.VerifDatasetNames()
	sort.Strings(names)
	for _, name := range names {
		if name == "core.Dataset" {
			continue
		}
		fresh := []Ent{{"id": fmt.Sprintf("%spost%d", MkE, n), "props": map[string]any{MkS + "a0": "x"}, "refs": map[string]any{}}}
		time.Sleep(time.Nanosecond)
		_ = h.Dataset(name).StoreEntities(h.Entities(fresh))
		break
	}
	_, _ = h.Dsm.CreateDataset(fmt.Sprintf("after%d", n), nil)
}

func clip(s string) string {
	if len(s) > 700 {
		return s[:700] + "..."
	}
	return s
}
