package verifsim

import (
	"fmt"
	"os"
	"sort"
	"strings"
	"time"

	"github.com/mimiro-io/datahub/internal/server"
)

// Concurrent crash executor (profile C04c): 2-4 writer tasks (batches, multi-dataset transactions, transactions
// through a contextual store) run under the cooperative scheduler; the process dies at hook points chosen by the
// scenario (directory snapshot while every task is parked) and at byte offsets of the write-ahead log (the
// log length is recorded at every hook event). Because every data commit is followed at once by its
// afterDataCommit event, the set of commits a crash state must contain is known exactly: it must equal the
// serial replay of the commits observed before the crash (for a log cut inside the bytes of a commit: with or
// without that commit), pass the raw scan and accept writes with fresh positions and internal ids.

type ccBackup struct {
	dir     string
	commits int // commits observed when the backup run started
	idx     int
}

type ccEvent struct {
	wal     int64
	commits int
	name    string
	task    string
}

func genC04c(g *G, sc *Scenario, tier string) {
	nds := g.Range(2, 3)
	datasets := []string{"dsA", "dsB", "dsC"}[:nds]
	sc.Datasets = datasets
	pool := poolNames(MkE, "e", g.Range(2, 4))
	preds := poolNames(MkS, "p", g.Range(1, 2))
	shared := poolNames(MkE, "sh", 2) // identifiers several writers introduce at the same time
	ent := func(id, mark string, fresh bool) Ent {
		e := Ent{"id": id, "props": map[string]any{MkS + "w": mark}, "refs": map[string]any{}}
		if g.P(0.6) {
			tgt := g.Pick(pool)
			if fresh && g.P(0.5) {
				tgt = g.Pick(shared)
			} else if fresh && g.P(0.3) {
				tgt = MkE + "r" + mark
			}
			e["refs"].(map[string]any)[g.Pick(preds)] = tgt
		}
		if g.P(0.12) {
			e["deleted"] = true
		}
		return e
	}
	// history before the concurrent phase
	for i := g.Range(0, 3); i > 0; i-- {
		var ents []Ent
		for k := g.Range(1, 3); k > 0; k-- {
			ents = append(ents, ent(g.Pick(pool), fmt.Sprintf("pre%d.%d", i, k), false))
		}
		sc.Ops = append(sc.Ops, Op{K: "batch", DS: g.Pick(datasets), Ents: ents})
	}
	pNew := g.PickFloat([]float64{0, 0.4, 0.8})
	nw := g.Range(2, 4)
	for w := 0; w < nw; w++ {
		var ops []Op
		for i, n := 0, g.Range(1, 3); i < n; i++ {
			mark := fmt.Sprintf("t%do%d", w, i)
			mk := func(ds string) []Ent {
				var ents []Ent
				for k := g.Range(1, 3); k > 0; k-- {
					id := g.Pick(pool)
					fresh := g.P(pNew)
					if fresh {
						switch g.Intn(3) {
						case 0:
							id = g.Pick(shared)
						default:
							id = fmt.Sprintf("%sn%s%s%d", MkE, mark, ds, k)
						}
					}
					ents = append(ents, ent(id, fmt.Sprintf("%s%s.%d", mark, ds, k), fresh))
				}
				return ents
			}
			if g.P(0.45) {
				perm := g.r.Perm(len(datasets))
				var parts []Part
				for _, pi := range perm[:g.Range(2, len(datasets))] {
					parts = append(parts, Part{DS: datasets[pi], Ents: mk(datasets[pi])})
				}
				k := "txn"
				if g.P(0.35) {
					k = "ctxtxn"
				}
				op := Op{K: k, Parts: parts}
				if g.P(0.1) {
					// refused as a whole: one part carries a nil reference
					j := g.Intn(len(parts))
					parts[j].Ents = append(parts[j].Ents, Ent{"id": MkE + "bad" + mark, "props": map[string]any{}, "refs": map[string]any{MkS + "p0": nil}})
					op.M = map[string]any{"invalid": true}
				}
				ops = append(ops, op)
			} else {
				ds := g.Pick(datasets)
				op := Op{K: "batch", DS: ds, Ents: mk(ds)}
				if g.P(0.12) {
					// rejected as a whole after some of its identifiers went into the shared id transaction
					bad := Ent{"id": MkE + "bad" + mark, "props": map[string]any{}, "refs": map[string]any{MkS + "p0": nil}}
					op.Ents = append(op.Ents, bad)
					op.M = map[string]any{"invalid": true}
				}
				ops = append(ops, op)
			}
			if g.P(0.1) {
				ops[len(ops)-1].Sleep = int64(g.PickInt([]int{1, 5, 2000}))
			}
		}
		sc.Tasks = append(sc.Tasks, ops)
	}
	// process death at hook events: "*" counts every point event of the run, a name counts arrivals at that point
	for k := g.Range(1, 6); k > 0; k-- {
		if g.P(0.5) {
			sc.Faults = append(sc.Faults, Fault{At: "*", Hit: g.Range(1, 90), Kind: "crash"})
		} else {
			sc.Faults = append(sc.Faults, Fault{At: g.Pick(ccPoints), Hit: g.Range(1, 2*nw), Kind: "crash"})
		}
	}
	if g.P(0.25) {
		pt := g.Pick([]string{"StoreEntities.idCommit", "StoreEntities.dataCommit", "ExecuteTransaction.dataCommit"})
		sc.Faults = append(sc.Faults, Fault{At: "fault:" + pt, Hit: g.Range(1, 3), Kind: "error"})
	}
	// log cuts: (position in the event log in 1/1000, position between that event and the next in 1/1000)
	for k := g.Range(2, 8); k > 0; k-- {
		frac := g.PickInt([]int{1000, 999, g.Range(1, 998), g.Range(1, 998)})
		sc.Cuts = append(sc.Cuts, [2]int64{int64(g.Range(0, 999)), int64(frac)})
	}
	sc.Knobs["maxStates"] = 12
	sc.Knobs["schedSeed"] = int64(g.r.Uint64() >> 1)
	sc.Knobs["preemptPct"] = int64(g.PickInt([]int{10, 20, 35, 50, 70}))
}

// genC20c: the writers of C04c with a task that runs native backups (sometimes through a new manager, as after a
// restart) while they are in flight; no process death.
func genC20c(g *G, sc *Scenario, tier string) {
	genC04c(g, sc, tier)
	var keep []Fault
	for _, f := range sc.Faults {
		if f.Kind != "crash" {
			keep = append(keep, f)
		}
	}
	sc.Faults, sc.Cuts = keep, nil
	var ops []Op
	for k := g.Range(1, 3); k > 0; k-- {
		op := Op{K: "backup"}
		if len(ops) > 0 && g.P(0.3) {
			op.N = 1
		}
		if g.P(0.3) {
			op.Sleep = int64(g.PickInt([]int{1, 50, 3000}))
		}
		ops = append(ops, op)
	}
	sc.Tasks = append(sc.Tasks, ops)
	if g.P(0.4) {
		// a writer that also triggers a backup between two of its writes
		ti := g.Intn(len(sc.Tasks) - 1)
		pos := g.Intn(len(sc.Tasks[ti]) + 1)
		sc.Tasks[ti] = append(sc.Tasks[ti][:pos:pos], append([]Op{{K: "backup"}}, sc.Tasks[ti][pos:]...)...)
	}
}

func (g *G) PickFloat(l []float64) float64 { return l[g.Intn(len(l))] }

var ccPoints = []string{
	"StoreEntities.beforeIDCommit", "StoreEntities.afterIDCommit", "StoreEntities.afterDataCommit", "StoreEntities.afterUpdateDataset",
	"ExecuteTransaction.beforeIDCommit", "ExecuteTransaction.afterIDCommit", "ExecuteTransaction.afterDataCommit", "ExecuteTransaction.afterUpdateDataset",
	"commitIDTxn.beforeCommit", "StoreEntitiesWithTransaction.entity", "updateDataset.beforeStore", "StoreObject.beforeStore",
}

func RunConcCrashScenario(sc *Scenario) (vd *Verdict) {
	vd = &Verdict{Verdict: "ok", Property: sc.Property, Profile: sc.Profile, Seed: sc.Seed}
	sr, err := NewSeqRun(sc)
	if err != nil {
		vd.Verdict, vd.Message = "error", err.Error()
		return
	}
	r := &CrashRun{SeqRun: sr, maxSnap: int(sc.Knob("maxStates", 12)), deletedIDs: map[uint32]bool{}, seenDsIDs: map[uint32]string{}, incarnation: map[string]int{}, grabbed: map[string]*grabbedDS{}, mem: NewNSMem(), written: map[string]bool{}, settings: map[string]dsSettings{}}
	h := r.H
	defer func() {
		for _, cs := range r.states {
			os.RemoveAll(cs.dir)
		}
		r.Cleanup()
	}()
	fail := func(v *Violation) {
		vd.Verdict = "violation"
		vd.Property, vd.Oracle, vd.Signature, vd.Message = sc.Property, v.Oracle, v.Signature, v.Message
	}
	// sequential prefix
	for i := range sc.Ops {
		op := &sc.Ops[i]
		time.Sleep(time.Nanosecond)
		if op.K != "batch" {
			continue
		}
		if err := h.Dataset(op.DS).StoreEntities(h.Entities(op.Ents)); err != nil {
			vd.Verdict, vd.Message = "error", "prefix batch: "+err.Error()
			return
		}
		r.M.Batch(op.DS, op.Ents)
	}
	time.Sleep(time.Nanosecond)
	fp := FilesFingerprint(h.Dir)

	type wop struct {
		op        *Op
		task, idx int
		commitIdx int
		err       error
		done      bool
		injected  bool
	}
	var all [][]*wop
	var commitOf []*wop
	commits := 0
	var events []ccEvent
	hitsByName := map[string]int{}
	armed := map[string]string{}
	for _, f := range sc.Faults {
		armed[fmt.Sprintf("%s#%d", f.At, f.Hit)] = f.Kind
	}
	s := NewSched()
	s.schedule = sc.Schedule
	if len(sc.Schedule) == 0 {
		if seed, ok := sc.Knobs["schedSeed"]; ok {
			s.gen = NewG(uint64(seed))
			s.pPreempt = float64(sc.Knob("preemptPct", 20)) / 100
		}
	}
	if v, ok := sc.Knobs["maxSteps"]; ok {
		s.MaxSteps = int(v)
	}
	for _, d := range sc.Datasets {
		s.SetName(h.Dataset(d), d)
	}
	s.SetName(h.Dataset("core.Dataset"), "core.Dataset")
	events = append(events, ccEvent{wal: WalEnd(h.Dir), commits: 0, name: "start"})
	s.OnPoint = func(t *Task, name string) {
		if name == "StoreEntities.afterDataCommit" || name == "ExecuteTransaction.afterDataCommit" {
			if co, _ := t.Cur.(*wop); co != nil && co.commitIdx == 0 {
				commits++
				co.commitIdx = commits
				commitOf = append(commitOf, co)
			}
		}
		events = append(events, ccEvent{wal: WalEnd(h.Dir), commits: commits, name: name, task: t.Name})
		hitsByName[name]++
		k1 := fmt.Sprintf("*#%d", len(events)-1)
		k2 := fmt.Sprintf("%s#%d", name, hitsByName[name])
		if armed[k1] == "crash" || armed[k2] == "crash" {
			r.Stats["fault_crash_at_point"]++
			r.curOp = commits
			key := k2
			r.snapshot(fmt.Sprintf("point %s (event %d, task %s, %d commits before it)", key, len(events)-1, t.Name, commits), "point:"+name, -1)
		}
	}
	injectedFor := map[*Task]bool{}
	var backups []ccBackup
	var backupViolation *Violation
	backupRunning := false
	defer func() {
		for _, b := range backups {
			os.RemoveAll(b.dir)
		}
		if r.backupDir != "" {
			os.RemoveAll(r.backupDir)
		}
	}()
	hooks.onFault = func(owner any, name string, hit int64) error {
		if armed[fmt.Sprintf("fault:%s#%d", name, hit)] == "error" {
			r.Stats["fault_injected_error"]++
			if t := s.lookup(owner, false, ""); t != nil {
				injectedFor[t] = true
			}
			return errInjected
		}
		return nil
	}
	hooks.sched = s
	defer func() { hooks.sched = nil }()
	for ti := range sc.Tasks {
		var cos []*wop
		for oi := range sc.Tasks[ti] {
			cos = append(cos, &wop{op: &sc.Tasks[ti][oi], task: ti, idx: oi})
		}
		all = append(all, cos)
		var tk *Task
		tk = s.Spawn(fmt.Sprintf("T%d", ti), h.Store.VerifDB(), func() {
			for _, co := range cos {
				tk.Cur = co
				op := co.op
				if op.Sleep > 0 {
					time.Sleep(time.Duration(op.Sleep))
					if op.K == "backup" {
						// a task that wakes from its sleep runs beside the scheduled task until it reaches a hook; a backup
						// run reaches none before its snapshot, so it queues for its turn here
						hooks.Point(h.Store.VerifDB(), "harness.afterSleep")
					}
				}
				injectedFor[tk] = false
				switch op.K {
				case "batch":
					co.err = h.Dataset(op.DS).StoreEntities(h.Entities(op.Ents))
				case "txn", "ctxtxn":
					tx := &server.Transaction{DatasetEntities: map[string][]*server.Entity{}}
					for _, p := range op.Parts {
						tx.DatasetEntities[p.DS] = h.Entities(p.Ents)
					}
					st := h.Store
					if op.K == "ctxtxn" {
						st = server.NewContextualStore(h.Store)
					}
					co.err = st.ExecuteTransaction(tx)
				case "backup":
					// a backup run racing the writers: whatever is parked between its id commit and its data commit stays parked
					if backupRunning {
						// the manager skips a run that overlaps another one: no completed run, nothing to judge
						r.Stats["backup_runs_skipped_overlap"]++
						if r.backupMgr != nil {
							r.backupMgr.Run()
						}
						break
					}
					if op.N == 1 {
						r.backupMgr = nil // as after a restart of the hub: a new manager reloads its cursor
					}
					at := commits
					backupRunning = true
					v := r.runBackup()
					backupRunning = false
					if v != nil {
						if backupViolation == nil {
							backupViolation = v
						}
					} else {
						d := NewDir("bkcopy")
						if err := CopyDirSparse(r.backupDir, d); err == nil {
							backups = append(backups, ccBackup{dir: d, commits: at, idx: len(backups)})
						}
					}
				}
				co.injected = injectedFor[tk]
				co.done = true
				tk.Cur = nil
			}
		})
	}
	s.Run()
	hooks.sched = nil
	hooks.onFault = nil
	events = append(events, ccEvent{wal: WalEnd(h.Dir), commits: commits, name: "end"})
	for k, v := range s.Stats {
		r.Stats[k] = v
	}
	r.Stats["steps"] = int64(s.Steps)
	r.Stats["commits"] = int64(commits)
	r.Stats["hook_events"] = int64(len(events))
	defer func() {
		vd.Stats = r.Stats
		vd.TraceHash = s.TraceHash()
		vd.SimNS = int64(time.Since(r.Start))
		vd.Nontrivial = r.Stats["crash_states_verified"] >= 1 && commits >= 2 && s.Stats["preemptions"] >= 1
	}()
	if len(sc.Schedule) == 0 && s.gen != nil {
		sc.Schedule = append([]int(nil), s.Chosen...)
		delete(sc.Knobs, "schedSeed")
	}
	if s.Violation != nil {
		fail(s.Violation)
		return
	}
	if s.Stats["budget_exhausted"] > 0 {
		vd.Verdict, vd.Message = "invalid", "step budget exhausted"
		return
	}
	for ti, cos := range all {
		for _, co := range cos {
			if co.op.K == "backup" && co.done {
				continue
			}
			switch {
			case !co.done:
				fail(viol(sc.Property, "hang", "unfinished-task", "task %d op %d (%s) never finished", ti, co.idx, co.op.K))
				return
			case co.op.M != nil && co.op.M["invalid"] == true:
				r.Stats["invalid_batches"]++
				if co.err == nil || co.commitIdx != 0 {
					fail(viol(sc.Property, "write", "invalid-batch-accepted", "task %d op %d: a batch containing a nil reference was accepted (err=%v, committed=%v)", ti, co.idx, co.err, co.commitIdx != 0))
					return
				}
			case co.err == nil && co.commitIdx == 0:
				fail(viol(sc.Property, "write", "ack-without-commit", "task %d op %d acknowledged but no commit was observed", ti, co.idx))
				return
			case co.err != nil && !co.injected:
				fail(viol(sc.Property, "write", "write-rejected:concurrent", "task %d op %d (%s) failed although nothing was injected into it: %v", ti, co.idx, co.op.K, co.err))
				return
			case co.err != nil && co.commitIdx != 0:
				fail(viol(sc.Property, "write", "failed-write-committed", "task %d op %d (%s) returned %v, but its data had been committed", ti, co.idx, co.op.K, co.err))
				return
			}
		}
	}
	// models[k] = serial replay of the first k commits
	r.models = []*Model{r.M.Clone()}
	r.memAfter = []*NSMem{r.mem}
	m := r.M.Clone()
	for _, co := range commitOf {
		switch co.op.K {
		case "batch":
			m.Batch(co.op.DS, co.op.Ents)
		default:
			for _, p := range co.op.Parts {
				m.Batch(p.DS, p.Ents)
			}
		}
		r.models = append(r.models, m.Clone())
		r.applied = append(r.applied, true)
	}
	r.applied = append(r.applied, false)
	if v := r.checkAgainst(h, m); v != nil {
		v.Signature = "no-crash:" + v.Signature
		fail(v)
		return
	}
	if _, v := RawConsistency(h, sc.Property); v != nil {
		v.Signature = "no-crash:" + v.Signature
		fail(v)
		return
	}
	if sc.Property == "C20" {
		if backupViolation != nil {
			fail(backupViolation)
			return
		}
		// one more run at quiescence: together with the earlier runs it must hold everything
		if v := r.runBackup(); v != nil {
			fail(v)
			return
		}
		if d := NewDir("bkcopy"); CopyDirSparse(r.backupDir, d) == nil {
			backups = append(backups, ccBackup{dir: d, commits: commits, idx: len(backups)})
		}
		live := r.backupDir
		for _, b := range backups {
			r.backupDir = b.dir
			r.atBackup = r.models[b.commits]
			v := r.restoreCheck()
			r.backupDir = live
			if v != nil {
				v.Signature = "concurrent:" + v.Signature
				v.Message = fmt.Sprintf("backup run %d of %d started after %d of %d commits, with writers in flight: %s", b.idx+1, len(backups), b.commits, commits, v.Message)
				fail(v)
				return
			}
		}
		r.Stats["crash_states_verified"] += int64(len(backups))
		return
	}
	// log cuts
	if FilesFingerprint(h.Dir) != fp {
		r.Stats["wal_cuts_skipped_files_changed"]++
	} else if len(sc.Cuts) > 0 && len(events) >= 2 {
		final := NewDir("final")
		if err := CopyDirSparse(h.Dir, final); err == nil {
			type cut struct{ ev, frac int }
			var cuts []cut
			for _, a := range sc.Cuts {
				cuts = append(cuts, cut{ev: 1 + int(a[0])*(len(events)-1)/1000, frac: int(a[1])})
			}
			sort.Slice(cuts, func(i, j int) bool {
				if cuts[i].ev != cuts[j].ev {
					return cuts[i].ev < cuts[j].ev
				}
				return cuts[i].frac < cuts[j].frac
			})
			seen := map[int64]bool{}
			for _, c := range cuts {
				if c.ev < 1 || c.ev >= len(events) || len(r.states) >= r.maxSnap+10 {
					continue
				}
				// move forward to an event that wrote something
				i := c.ev
				for i < len(events)-1 && events[i].wal <= events[i-1].wal {
					i++
				}
				a, b := events[i-1].wal, events[i].wal
				if b <= a {
					continue
				}
				var x int64
				switch {
				case c.frac >= 1000:
					x = b
				case c.frac == 999:
					x = b - 1
				default:
					x = a + (b-a)*int64(c.frac)/1000
				}
				if seen[x] {
					continue
				}
				seen[x] = true
				d := NewDir("walcut")
				if err := CopyDirSparse(final, d); err != nil {
					continue
				}
				if err := CutWal(d, x); err != nil {
					os.RemoveAll(d)
					continue
				}
				cs := &crashState{dir: d, class: "wal:" + events[i].name, inflight: -1, acked: events[i-1].commits,
					desc: fmt.Sprintf("log byte %d (between event %d and event %d %s of task %s the log grew from %d to %d; cut at %d/1000)", x, i-1, i, events[i].name, events[i].task, a, b, c.frac)}
				if x >= b {
					cs.acked = events[i].commits
				} else if events[i].commits > events[i-1].commits {
					cs.inflight = events[i-1].commits
				}
				r.Stats["fault_crash_at_wal_byte"]++
				r.states = append(r.states, cs)
			}
			os.RemoveAll(final)
		}
	}
	for _, cs := range r.states {
		cs.mem = nil
		if v := r.verifyState(cs); v != nil {
			v.Signature = "concurrent:" + v.Signature
			if !strings.Contains(v.Message, "commits") {
				v.Message += fmt.Sprintf(" [%d of %d commits before the crash]", cs.acked, commits)
			}
			fail(v)
			return
		}
	}
	r.states = nil
	return
}
