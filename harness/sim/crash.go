package verifsim

import (
	"bytes"
	"encoding/binary"
	"encoding/json"
	"fmt"
	"io"
	"os"
	"path/filepath"
	"sort"
	"strings"

	"github.com/dgraph-io/badger/v4"

	"github.com/mimiro-io/datahub/internal/server"
)

// Crash model (DESIGN 3.3): a process death leaves exactly the bytes that were written into
// the store's files. At a hook point every datahub goroutine is parked or the operation is on
// the caller's stack, so a sparse copy of the directory is the state a SIGKILL would leave.
// badger's write-ahead log of the active memtable is append-only, so zeroing its tail beyond
// byte X gives the state "the process died when the log had X bytes".

const (
	seekData = 3
	seekHole = 4
)

// copyFileSparse copies only the data extents of src.
func copyFileSparse(src, dst string) error {
	in, err := os.Open(src)
	if err != nil {
		return err
	}
	defer in.Close()
	st, err := in.Stat()
	if err != nil {
		return err
	}
	out, err := os.OpenFile(dst, os.O_CREATE|os.O_WRONLY|os.O_TRUNC, 0o644)
	if err != nil {
		return err
	}
	defer out.Close()
	if err := out.Truncate(st.Size()); err != nil {
		return err
	}
	off := int64(0)
	buf := make([]byte, 1<<16)
	for off < st.Size() {
		ds, err := in.Seek(off, seekData)
		if err != nil { // ENXIO: no more data
			break
		}
		he, err := in.Seek(ds, seekHole)
		if err != nil {
			he = st.Size()
		}
		if _, err := in.Seek(ds, io.SeekStart); err != nil {
			return err
		}
		if _, err := out.Seek(ds, io.SeekStart); err != nil {
			return err
		}
		left := he - ds
		for left > 0 {
			n := int64(len(buf))
			if n > left {
				n = left
			}
			k, err := io.ReadFull(in, buf[:n])
			if k > 0 {
				// do not materialise all-zero blocks
				if !allZero(buf[:k]) {
					if _, werr := out.WriteAt(buf[:k], he-left); werr != nil {
						return werr
					}
				}
				left -= int64(k)
			}
			if err != nil {
				break
			}
		}
		off = he
	}
	return nil
}

func allZero(b []byte) bool {
	for _, x := range b {
		if x != 0 {
			return false
		}
	}
	return true
}

// CopyDirSparse copies a store directory as a killed process would leave it (LOCK is skipped).
func CopyDirSparse(src, dst string) error {
	if err := os.MkdirAll(dst, 0o755); err != nil {
		return err
	}
	ents, err := os.ReadDir(src)
	if err != nil {
		return err
	}
	for _, e := range ents {
		if e.Name() == "LOCK" {
			continue
		}
		sp, dp := filepath.Join(src, e.Name()), filepath.Join(dst, e.Name())
		if e.IsDir() {
			if err := CopyDirSparse(sp, dp); err != nil {
				return err
			}
			continue
		}
		if err := copyFileSparse(sp, dp); err != nil {
			return err
		}
	}
	return nil
}

// walFile returns the write-ahead log of the active memtable (highest numbered *.mem).
func walFile(dir string) string {
	m, _ := filepath.Glob(filepath.Join(dir, "*.mem"))
	sort.Strings(m)
	if len(m) == 0 {
		return ""
	}
	return m[len(m)-1]
}

// WalEnd returns the offset just past the last non-zero byte of the active WAL.
func WalEnd(dir string) int64 {
	p := walFile(dir)
	if p == "" {
		return 0
	}
	f, err := os.Open(p)
	if err != nil {
		return 0
	}
	defer f.Close()
	st, _ := f.Stat()
	// find the last data extent
	var lastEnd int64
	off := int64(0)
	for off < st.Size() {
		ds, err := f.Seek(off, seekData)
		if err != nil {
			break
		}
		he, err := f.Seek(ds, seekHole)
		if err != nil {
			he = st.Size()
		}
		// scan this extent backwards for a non-zero byte
		end := he
		buf := make([]byte, 1<<16)
		for end > ds {
			n := int64(len(buf))
			if end-ds < n {
				n = end - ds
			}
			if _, err := f.ReadAt(buf[:n], end-n); err != nil && err != io.EOF {
				break
			}
			i := n - 1
			for i >= 0 && buf[i] == 0 {
				i--
			}
			if i >= 0 {
				lastEnd = end - n + i + 1
				break
			}
			end -= n
		}
		off = he
	}
	return lastEnd
}

// CutWal zeroes the active WAL of dir from offset x to its end.
func CutWal(dir string, x int64) error {
	p := walFile(dir)
	if p == "" {
		return fmt.Errorf("no wal in %s", dir)
	}
	st, err := os.Stat(p)
	if err != nil {
		return err
	}
	if err := os.Truncate(p, x); err != nil {
		return err
	}
	return os.Truncate(p, st.Size())
}

// FilesFingerprint describes the non-WAL files of a store directory; it changes when badger
// flushes a memtable or rotates a value log (then WAL-prefix crashes are not valid).
func FilesFingerprint(dir string) string {
	ents, _ := os.ReadDir(dir)
	var parts []string
	for _, e := range ents {
		n := e.Name()
		if strings.HasSuffix(n, ".sst") || strings.HasSuffix(n, ".mem") || strings.HasSuffix(n, ".vlog") {
			parts = append(parts, n)
		}
	}
	sort.Strings(parts)
	return strings.Join(parts, ",")
}

// ---------------------------------------------------------------------------------------
// raw key scan: cross-consistency of the index families

type rawScan struct {
	MaxInternalID uint64
	MaxSeq        map[uint32]uint64
	SeqCount      map[uint32]int
	Versions      int
}

func be16(b []byte) uint16 { return binary.BigEndian.Uint16(b) }
func be32(b []byte) uint32 { return binary.BigEndian.Uint32(b) }
func be64(b []byte) uint64 { return binary.BigEndian.Uint64(b) }

// RawConsistency scans every key family and checks that they agree with each other.
func RawConsistency(h *Hub, prop string) (*rawScan, *Violation) {
	db := h.Store.VerifDB()
	rs := &rawScan{MaxSeq: map[uint32]uint64{}, SeqCount: map[uint32]int{}}
	versions := map[string][]byte{} // entity key -> json
	newest := map[string]string{}   // rid|ds -> newest entity key
	latest := map[string]string{}   // rid|ds -> key named by latest pointer
	changes := map[string]bool{}    // entity keys named by change log
	outgoing, incoming := map[string]bool{}, map[string]bool{}
	uri2id := map[string]uint64{}
	id2uri := map[uint64]string{}
	usedIDs := map[uint64]string{}
	// keys of deleted datasets are invisible and may be half collected by an interrupted GC
	gone := h.Store.VerifDeletedDatasets()
	err := db.View(func(txn *badger.Txn) error {
		it := txn.NewIterator(badger.DefaultIteratorOptions)
		defer it.Close()
		for it.Rewind(); it.Valid(); it.Next() {
			item := it.Item()
			k := item.KeyCopy(nil)
			if len(k) < 2 {
				continue
			}
			switch be16(k) {
			case server.URIToIDIndexID:
				if len(k) >= 2 && !bytes.HasPrefix(k[2:], []byte("::")) {
					v, _ := item.ValueCopy(nil)
					if len(v) == 8 {
						uri2id[string(k[2:])] = be64(v)
					}
				}
			case server.IDToURIIndexID:
				if len(k) == 10 {
					v, _ := item.ValueCopy(nil)
					id2uri[be64(k[2:])] = string(v)
				}
			case server.EntityIDToJSONIndexID:
				if len(k) == 24 && !gone[be32(k[10:])] {
					v, _ := item.ValueCopy(nil)
					versions[string(k)] = v
					rid, ds := be64(k[2:]), be32(k[10:])
					gk := fmt.Sprintf("%d|%d", rid, ds)
					if cur, ok := newest[gk]; !ok || bytes.Compare(k[14:], []byte(cur)[14:]) > 0 {
						newest[gk] = string(k)
					}
					usedIDs[rid] = "entity version"
					rs.Versions++
				}
			case server.DatasetEntityChangeLog:
				if len(k) == 22 && !gone[be32(k[2:])] {
					v, _ := item.ValueCopy(nil)
					changes[string(v)] = true
					ds, seq := be32(k[2:]), be64(k[6:])
					if seq >= rs.MaxSeq[ds] {
						rs.MaxSeq[ds] = seq
					}
					rs.SeqCount[ds]++
				}
			case server.DatasetLatestEntities:
				if len(k) == 14 && !gone[be32(k[2:])] {
					v, _ := item.ValueCopy(nil)
					latest[fmt.Sprintf("%d|%d", be64(k[6:]), be32(k[2:]))] = string(v)
				}
			case server.OutgoingRefIndex:
				if len(k) == 40 && !gone[be32(k[36:])] {
					// rid time pred related del ds
					outgoing[fmt.Sprintf("%d|%d|%d|%d|%d|%d", be64(k[2:]), be64(k[10:]), be64(k[18:]), be64(k[26:]), be16(k[34:]), be32(k[36:]))] = true
					usedIDs[be64(k[18:])] = "predicate"
					usedIDs[be64(k[26:])] = "reference target"
				}
			case server.IncomingRefIndex:
				if len(k) == 40 && !gone[be32(k[36:])] {
					// related rid time pred del ds  -> normalise to the outgoing tuple order
					incoming[fmt.Sprintf("%d|%d|%d|%d|%d|%d", be64(k[10:]), be64(k[18:]), be64(k[26:]), be64(k[2:]), be16(k[34:]), be32(k[36:]))] = true
				}
			}
		}
		return nil
	})
	if err != nil {
		return rs, viol(prop, "raw-scan", "scan-error", "raw scan failed: %v", err)
	}
	for id := range id2uri {
		if id > rs.MaxInternalID {
			rs.MaxInternalID = id
		}
	}
	for id := range usedIDs {
		if id > rs.MaxInternalID {
			rs.MaxInternalID = id
		}
	}
	for ek := range changes {
		if _, ok := versions[ek]; !ok {
			return rs, viol(prop, "raw-scan", "change-without-version", "a change-log entry names an entity version that does not exist")
		}
	}
	for gk, ek := range latest {
		if _, ok := versions[ek]; !ok {
			return rs, viol(prop, "raw-scan", "latest-without-version", "latest pointer of (entity|dataset) %s names a version that does not exist", gk)
		}
		if newest[gk] != ek {
			return rs, viol(prop, "raw-scan", "latest-not-newest", "latest pointer of (entity|dataset) %s does not name the newest stored version", gk)
		}
	}
	for gk := range newest {
		if _, ok := latest[gk]; !ok {
			return rs, viol(prop, "raw-scan", "version-without-latest", "entity|dataset %s has stored versions but no latest pointer", gk)
		}
	}
	for ek := range versions {
		if !changes[ek] {
			return rs, viol(prop, "raw-scan", "version-without-change", "a stored entity version has no change-log entry")
		}
	}
	for id, what := range usedIDs {
		uri, ok := id2uri[id]
		if !ok {
			return rs, viol(prop, "raw-scan", "id-without-uri", "internal id %d (used as %s) has no id->uri mapping", id, what)
		}
		if back, ok := uri2id[uri]; !ok || back != id {
			return rs, viol(prop, "raw-scan", "uri-mapping-mismatch", "internal id %d maps to %q which maps back to %d (present=%v)", id, uri, back, ok)
		}
	}
	for k := range outgoing {
		if !incoming[k] {
			return rs, viol(prop, "raw-scan", "outgoing-without-incoming", "outgoing reference entry %s has no incoming counterpart", k)
		}
	}
	for k := range incoming {
		if !outgoing[k] {
			return rs, viol(prop, "raw-scan", "incoming-without-outgoing", "incoming reference entry %s has no outgoing counterpart", k)
		}
	}
	// the references of every stored version are indexed at its time stamp
	for ek, js := range versions {
		var e server.Entity
		if err := json.Unmarshal(js, &e); err != nil {
			return rs, viol(prop, "raw-scan", "garbage-version", "stored entity version does not parse: %v", err)
		}
		k := []byte(ek)
		if e.InternalID != be64(k[2:]) {
			return rs, viol(prop, "raw-scan", "version-id-mismatch", "stored version carries internal id %d under key id %d", e.InternalID, be64(k[2:]))
		}
	}
	return rs, nil
}
