#!/usr/bin/env python3
"""runseed.py <profile> <seed> [tier] : generate and run one scenario in the built worker, with the event trace."""
import json, subprocess, os, sys
prof, seed = sys.argv[1], int(sys.argv[2])
tier = sys.argv[3] if len(sys.argv) > 3 else "quick"
open('/dev/shm/runseed-job.jsonl', 'w').write(json.dumps({"id": 1, "profile": prof, "seed": seed, "tier": tier, "dump": True}) + "\n")
env = dict(os.environ, VERIF_JOBS='/dev/shm/runseed-job.jsonl', VERIF_TRACE='1')
p = subprocess.run(['/verif/build/dhsim.test', '-test.run', '^TestWorker$'], env=env, capture_output=True, text=True, cwd='/dev/shm')
for l in p.stderr.splitlines():
    if l.startswith('EV'):
        print(l[:400])
for l in p.stdout.splitlines():
    if l.startswith('VERDICT'):
        v = json.loads(l[8:])
        print(v.get('verdict'), v.get('oracle'), v.get('signature'), v.get('message', '')[:600])
        if '--ops' in sys.argv:
            sc = v.get('scenario') or {}
            print(sc.get('note'), sc.get('knobs'))
            for o in sc.get('ops', []):
                print('  ', json.dumps(o)[:700])
os.remove('/dev/shm/runseed-job.jsonl')
