#!/bin/bash
# rebase_patch.sh <patch.diff> <base-commit> : re-create a patch written against <base-commit> on /repo's HEAD
# (3-way merge in a scratch worktree); writes <patch.diff>.rebased, exit 1 on conflicts.
P=$1; BASE=$2; WT=/tmp/mut/rebase-$$
git -C /repo worktree add --detach $WT $BASE -q || exit 9
cd $WT && git apply $P && git -c user.name=x -c user.email=x@x commit -qam seeded || { cd /; git -C /repo worktree remove --force $WT; echo "does not apply on base"; exit 8; }
H=$(git -C /repo rev-parse HEAD)
if git -c user.name=x -c user.email=x@x rebase -q $H >/dev/null 2>&1; then
  git diff $H HEAD > $P.rebased; rc=0; echo "rebased: $(wc -l < $P.rebased) lines"
else
  git diff --name-only --diff-filter=U; git rebase --abort; rc=1; echo "conflict"
fi
cd /; git -C /repo worktree remove --force $WT; exit $rc
