#!/bin/bash
# tryseed.sh <patch.diff> <prop> [check args...] : apply a seeded change to /repo, run the check, undo.
P=$1; shift
cd /repo && git apply $P || { echo "patch does not apply"; exit 9; }
cd /verif && bin/check "$@" --no-evidence 2>&1 | grep -v "^T[0-9]* \|^last events" | cut -c1-600 | tail -8
rc=${PIPESTATUS[0]}
git -C /repo checkout -- . ; git -C /repo status --short | head -3
echo "check rc=$rc"
