#!/bin/bash
# seed_matrix_wt.sh [ids...] : like seed_matrix.sh, but every kept seeded change is applied to a scratch worktree of
# /repo HEAD (VERIF_REPO / VERIF_BUILD), so /repo itself is never touched. One line per seed.
cd "$(dirname "$0")/.."
V=$PWD
ids="$@"; [ -z "$ids" ] && ids=$(ls seeded)
mkdir -p /tmp/mut
for id in $ids; do
  d=$V/seeded/$id
  checks=$(python3 -c "import json;print(' '.join(json.load(open('$d/meta.json'))['caught_by']))")
  [ -z "$checks" ] && { echo "$id NOT-CAUGHT-BY-DESIGN"; continue; }
  WT=/tmp/mut/mx-$id; B=/dev/shm/vbuild-mx-$id
  git -C /repo worktree remove --force $WT 2>/dev/null
  git -C /repo worktree add --detach $WT HEAD -q || { echo "$id WORKTREE-FAILED"; continue; }
  if ! ( cd $WT && git apply $d/patch.diff ) 2>/dev/null; then echo "$id DOES-NOT-APPLY"; git -C /repo worktree remove --force $WT; continue; fi
  res=""
  for c in $checks; do
    out=$(VERIF_REPO=$WT VERIF_BUILD=$B VERIF_GOCACHE=/verif/build/gocache bin/check $c --tier quick --no-min --no-evidence 2>&1)
    rc=$?
    n=$(echo "$out" | grep -c "^violation")
    cnt=$(echo "$out" | grep "^violation" | sed -n 's/.* in \([0-9]*\) scenario.*/\1/p' | paste -sd+ | bc 2>/dev/null)
    res="$res $c:rc=$rc,classes=$n,scenarios=${cnt:-0}"
  done
  git -C /repo worktree remove --force $WT; rm -rf $B
  echo "$id$res"
done
