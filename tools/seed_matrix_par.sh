#!/bin/bash
# seed_matrix_par.sh <lanes> [workers-per-lane] : seed_matrix_wt.sh over all kept seeded changes, split over parallel lanes
cd "$(dirname "$0")/.."
L=${1:-3}; W=${2:-4}
ids=( $(ls seeded | grep -v MATRIX) )
for ((l=0; l<L; l++)); do
  part=""
  for ((i=l; i<${#ids[@]}; i+=L)); do part="$part ${ids[$i]}"; done
  ( VERIF_JOBS_PARALLEL=$W tools/seed_matrix_wt.sh $part ) &
done
wait
