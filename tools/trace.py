#!/usr/bin/env python3
"""trace.py <replay.json> : run one scenario in the built worker with the harness event trace on stderr."""
import json, subprocess, os, sys
s = json.load(open(sys.argv[1]))
sc = s.get('scenario', s)
open('/dev/shm/trace-job.jsonl', 'w').write(json.dumps({"id": 1, "scenario": sc}) + "\n")
env = dict(os.environ, VERIF_JOBS='/dev/shm/trace-job.jsonl', VERIF_TRACE='1')
p = subprocess.run(['/verif/build/dhsim.test', '-test.run', '^TestWorker$'], env=env, capture_output=True, text=True, cwd='/dev/shm')
for l in p.stderr.splitlines():
    if l.startswith('EV'):
        print(l[:600])
for l in p.stdout.splitlines():
    if l.startswith('VERDICT'):
        v = json.loads(l[8:])
        print(v.get('verdict'), v.get('oracle'), v.get('signature'), v.get('message', '')[:400])
os.remove('/dev/shm/trace-job.jsonl')
