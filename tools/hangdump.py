#!/usr/bin/env python3
"""hangdump.py <profile> <seed> [tier] [seconds]: run one seed, SIGQUIT it after a while, print the datahub goroutines of the bubble."""
import json, subprocess, os, signal, sys
prof, seed = sys.argv[1], int(sys.argv[2])
tier = sys.argv[3] if len(sys.argv) > 3 else "quick"
secs = int(sys.argv[4]) if len(sys.argv) > 4 else 40
open('/dev/shm/hd.jsonl', 'w').write(json.dumps({"id": 1, "profile": prof, "seed": seed, "tier": tier}) + "\n")
env = dict(os.environ, VERIF_JOBS='/dev/shm/hd.jsonl', GOMAXPROCS='2')
p = subprocess.Popen(['/verif/build/dhsim.test', '-test.run', '^TestWorker$', '-test.timeout', '0'], env=env, stdout=subprocess.PIPE, stderr=subprocess.PIPE, text=True, cwd='/dev/shm')
try:
    so, se = p.communicate(timeout=secs)
    print("finished", p.returncode, so[-400:])
except subprocess.TimeoutExpired:
    p.send_signal(signal.SIGQUIT)
    so, se = p.communicate()
    open('/dev/shm/hangdump.txt', 'w').write(se)
    gs = se.split("\n\n")
    print(len(gs), 'goroutines; full dump in /dev/shm/hangdump.txt')
    for g in gs:
        if 'synctest bubble' in g and ('mimiro-io/datahub' in g or 'sync.Mutex' in g or 'semacquire' in g):
            lines = [l for l in g.splitlines() if not l.startswith('\t')]
            print("\n".join(l[:160] for l in lines[:14]))
            print('---')
