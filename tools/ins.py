#!/usr/bin/env python3
"""ins.py FILE  (reads edits from stdin as JSON list of {after|before: "<unique line substring>", nth: k, add: ["line",...]})
Only inserts lines; never edits existing ones. Indentation of added lines is taken literally."""
import sys, json
path = sys.argv[1]
edits = json.load(sys.stdin)
lines = open(path).read().split('\n')
for e in edits:
    key = e.get('after') or e.get('before')
    nth = e.get('nth', 1)
    hits = [i for i, l in enumerate(lines) if key in l]
    if len(hits) < nth:
        sys.exit(f"{path}: anchor not found ({nth}): {key!r}")
    if 'nth' not in e and len(hits) != 1:
        sys.exit(f"{path}: anchor ambiguous ({len(hits)} hits): {key!r}")
    i = hits[nth - 1]
    pos = i + 1 if 'after' in e else i
    lines[pos:pos] = e['add']
open(path, 'w').write('\n'.join(lines))
