#!/bin/bash
# Background sweep: thorough tier of every check (or those named) at VERIF_SEED, with a bounded worker count.
# Usage: tools/thorough_sweep.sh <seed> [workers] [props...]
cd "$(dirname "$0")/.."
seed=${1:-7}; workers=${2:-6}; shift; shift
props=${@:-C01 C02 C03 C04 C05 C06 C07 C08 C09 C10 C11 C12 C13 C14 C15 C16 C17 C18 C19 C20}
python3 bin/vbuild.py > /dev/null || exit 2   # key fixtures are read from /verif/build/fixtures
for p in $props; do
  s=$(date +%s)
  VERIF_SEED=$seed VERIF_JOBS_PARALLEL=$workers bin/check $p --tier thorough --no-evidence > sweep_$p.log 2>&1
  rc=$?
  echo "$p seed=$seed rc=$rc $(( $(date +%s)-s ))s $(grep -E 'VIOLATION|KNOWN-FINDING|UNREPRODUCED' sweep_$p.log | head -3 | tr '\n' ' ')"
  tail -1 sweep_$p.log
done
