#!/bin/bash
# tryseed_wt.sh <patch.diff> <name> <check args...> : like tryseed.sh, but against a scratch worktree of /repo HEAD
# (VERIF_REPO / VERIF_BUILD), so that /repo and background runs that build from it are not disturbed.
P=$1; N=$2; shift; shift
WT=/tmp/mut/try-$N; B=/dev/shm/vbuild-$N
git -C /repo worktree remove --force $WT 2>/dev/null
git -C /repo worktree add --detach $WT HEAD -q || exit 9
( cd $WT && git apply $P ) || { echo "patch does not apply"; git -C /repo worktree remove --force $WT; exit 9; }
cd /verif && VERIF_REPO=$WT VERIF_BUILD=$B VERIF_GOCACHE=/verif/build/gocache bin/check "$@" --no-evidence 2>&1 | grep -v "^T[0-9]* \|^last events\|^{" | cut -c1-700 | tail -8
rc=${PIPESTATUS[0]}
git -C /repo worktree remove --force $WT; rm -rf $B
echo "check rc=$rc"
