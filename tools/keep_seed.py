#!/usr/bin/env python3
"""keep_seed.py <agent out dir> <seed id> <property> <caught_by csv> [<missed_by csv>] : store a confirmed seeded change."""
import sys, os, shutil, json, re
src, sid, prop, caught = sys.argv[1:5]
missed = sys.argv[5] if len(sys.argv) > 5 else ""
dst = os.path.join("/verif/seeded", sid)
os.makedirs(dst, exist_ok=True)
for f in ("patch.diff", "demo_test.go", "notes.md"):
    if os.path.exists(os.path.join(src, f)):
        shutil.copy(os.path.join(src, f), os.path.join(dst, f))
log = "/tmp/mut/confirm-%s.log" % sid
res = ""
if os.path.exists(log):
    m = re.findall(r"RESULT .*", open(log).read())
    res = m[-1] if m else ""
notes = open(os.path.join(src, "notes.md")).read() if os.path.exists(os.path.join(src, "notes.md")) else ""
meta = {
    "id": sid, "property": prop,
    "summary": notes.strip().split("\n")[0][:300],
    "needs_to_manifest": notes[:1500],
    "confirmed": {"how": "tools/confirm_seed.sh in a scratch worktree of /repo HEAD: demo test passes without the patch, fails with it; go build ./... ok; go test of the touched packages passes", "result": res},
    "caught_by": [c for c in caught.split(",") if c],
    "missed_by": [c for c in missed.split(",") if c],
    "ran": ["tools/tryseed.sh %s/patch.diff <check> (git -C /repo apply, bin/check <check>, git -C /repo checkout -- .)" % dst],
}
json.dump(meta, open(os.path.join(dst, "meta.json"), "w"), indent=1)
print("kept", dst)
