#!/usr/bin/env python3
"""Regenerate the generated sections of DESIGN.md from bin/vprops.py, seeded/*/meta.json and known_findings.json."""
import json, glob, os, re, sys, textwrap
V = os.path.dirname(os.path.dirname(os.path.abspath(__file__)))
sys.path.insert(0, os.path.join(V, "bin"))
from vprops import PROPS

props = {}
for l in open(os.path.join(V, "properties.jsonl")):
    l = l.strip()
    if l:
        p = json.loads(l)
        props[p.get("id") or p.get("property_id")] = p
kf = json.load(open(os.path.join(V, "known_findings.json")))
seeded = [json.load(open(m)) for m in sorted(glob.glob(os.path.join(V, "seeded", "*", "meta.json")))]

def wrap(s, indent=""):
    return "\n".join(textwrap.wrap(s, 108, initial_indent=indent, subsequent_indent=indent))

out = []
for pid in sorted(PROPS):
    c = PROPS[pid]
    title = props.get(pid, {}).get("title") or props.get(pid, {}).get("name") or ""
    out.append("### %s %s — %s" % (pid, title, c["level"]))
    out.append("")
    out.append(wrap(c["level_text"]))
    out.append("")
    profs = ", ".join("%s (quick %d, thorough %d scenarios)" % (p["name"], p["quick"], p["thorough"]) for p in c["profiles"])
    out.append(wrap("Profiles: " + profs + ". " + c.get("rule", "")))
    if c.get("level_note"):
        out.append("")
        out.append(wrap("Trust / limits: " + c["level_note"] + "."))
    if c.get("assumptions"):
        out.append("")
        out.append(wrap("Assumptions: " + "; ".join(c["assumptions"]) + "."))
    fx = [f for f in kf if f["property"] == pid and f["status"] == "fixed"]
    op = [f for f in kf if f["property"] == pid and f["status"] == "open"]
    sd = [s for s in seeded if pid in s.get("caught_by", [])]
    bits = []
    if fx:
        bits.append("defects repaired: " + ", ".join(f["commit"][:7] for f in fx))
    if op:
        bits.append("open findings: " + ", ".join(f["id"] for f in op))
    if sd:
        bits.append("seeded changes caught by this check: " + ", ".join(s["id"] for s in sd))
    if bits:
        out.append("")
        out.append(wrap("Results: " + "; ".join(bits) + "."))
    out.append("")
gen_props = "\n".join(out)

fixed = []
for f in kf:
    if f["status"] == "fixed":
        fixed.append(wrap("* **%s** `%s` — %s" % (f["property"], f["commit"][:7], f["what"])).replace("\n", "\n  "))
gen_fixed = "\n".join(fixed) + "\n\n%d repairs." % len(fixed)

opn = []
for f in kf:
    if f["status"] == "open":
        opn.append(wrap("* **%s** (%s, oracle `%s`, signature `%s`, replay `%s`) — %s" % (f["id"], f["property"], f["oracle"], f["signature"], f.get("replay", ""), f["what"])).replace("\n", "\n  "))
        opn.append(wrap("  Not repaired because: " + f["why_not_fixed"]).replace("\n", "\n  "))
gen_open = "\n".join(opn)

rows = ["| seeded change | property | caught by | what it does |", "|---|---|---|---|"]
for s in seeded:
    summ = re.sub(r"^#\s*", "", s["summary"]).replace("|", "/")
    summ = re.sub(r"^C\d\d\s*[/-]\s*(change\s*)?[A-C]\s*[—:-]+\s*", "", summ)
    rows.append("| %s | %s | %s | %s |" % (s["id"], s["property"], ", ".join(s["caught_by"]) or "-", summ[:160]))
missed = [s for s in seeded if not s["caught_by"]]
gen_seeded = "\n".join(rows) + "\n\n%d seeded changes kept, %d caught." % (len(seeded), len(seeded) - len(missed))
for s_ in missed:
    gen_seeded += "\n\n" + wrap("* **%s not caught** - %s" % (s_["id"], s_.get("why_missed", "")))

p = os.path.join(V, "DESIGN.md")
s = open(p).read()
for name, body in (("props", gen_props), ("fixed", gen_fixed), ("open", gen_open), ("seeded", gen_seeded)):
    s = re.sub(r"(<!-- BEGIN GENERATED:%s -->\n).*?(<!-- END GENERATED:%s -->)" % (name, name), lambda m: m.group(1) + body + "\n" + m.group(2), s, flags=re.S)
open(p, "w").write(s)
print("DESIGN.md regenerated: %d props, %d fixed, %d open, %d seeded" % (len(PROPS), len(fixed), len(opn) // 2, len(seeded)))
