#!/bin/bash
# wave.sh <out-dir> <id> <checks...> : confirm a sub-agent's change and try it against the named checks (quick tier) in a scratch worktree.
D=$1; ID=$2; shift; shift
mkdir -p /tmp/mut
/verif/tools/confirm_seed.sh $D $ID
echo "== $ID confirm: $(tail -1 /tmp/mut/confirm-$ID.log)"
for c in "$@"; do
  echo "-- $ID vs $c"
  VERIF_JOBS_PARALLEL=${VERIF_JOBS_PARALLEL:-8} /verif/tools/tryseed_wt.sh $D/patch.diff $ID-$c $c --no-min 2>&1 | grep -v "^KNOWN-FINDING" | cut -c1-420 | tail -4
done
