#!/bin/bash
# seed_matrix.sh [ids...] : apply every kept seeded change to /repo in turn, run the QUICK tier of the check(s) that
# are recorded as catching it, undo, and print one line per seed. Nothing else may use /repo meanwhile.
cd /verif
ids="$@"; [ -z "$ids" ] && ids=$(ls seeded)
for id in $ids; do
  d=seeded/$id
  checks=$(python3 -c "import json;print(' '.join(json.load(open('$d/meta.json'))['caught_by']))")
  if ! git -C /repo apply --check $PWD/$d/patch.diff 2>/dev/null; then echo "$id DOES-NOT-APPLY"; continue; fi
  git -C /repo apply $PWD/$d/patch.diff
  res=""
  for c in $checks; do
    out=$(bin/check $c --tier quick --no-min --no-evidence 2>&1)
    rc=$?
    n=$(echo "$out" | grep -c "^violation")
    cnt=$(echo "$out" | grep "^violation" | sed -n 's/.* in \([0-9]*\) scenario.*/\1/p' | paste -sd+ | bc 2>/dev/null)
    res="$res $c:rc=$rc,classes=$n,scenarios=${cnt:-0}"
  done
  git -C /repo checkout -- .
  echo "$id$res"
done
git -C /repo status --short | head -3
