#!/bin/bash
# confirm_seed.sh <dir with patch.diff demo_test.go> <name> : independently confirm a seeded change
# in a scratch worktree: demo passes without, fails with; build ok; touched packages' tests pass.
D=$1; N=$2; WT=/tmp/mut/confirm-$N; LOG=/tmp/mut/confirm-$N.log
export GOFLAGS=-mod=mod GOPROXY=off GOSUMDB=off
exec > $LOG 2>&1
git -C /repo worktree remove --force $WT 2>/dev/null; git -C /repo worktree add --detach $WT HEAD -q || exit 9
cd $WT
tdir=$(head -5 $D/demo_test.go | grep -o 'internal/[a-zA-Z0-9_/]*' | head -1)
case "$tdir" in *_test) tdir=$(dirname $tdir);; esac
[ -z "$tdir" ] && tdir=internal/server
tname=$(grep -o 'func Test[A-Za-z0-9_]*' $D/demo_test.go | head -1 | sed 's/func //')
cp $D/demo_test.go $tdir/zz_demo_seed_test.go
echo "== demo WITHOUT change ($tdir $tname)"; go test -vet=off -count=1 -run "^$tname\$" ./$tdir/ 2>&1 | tail -3; r1=${PIPESTATUS[0]}
git apply $D/patch.diff || { echo "PATCH DOES NOT APPLY"; exit 8; }
echo "== build"; go build ./... ; rb=$?
echo "== demo WITH change"; go test -vet=off -count=1 -run "^$tname\$" ./$tdir/ 2>&1 | tail -8; r2=${PIPESTATUS[0]}
rm $tdir/zz_demo_seed_test.go
pk=$(git diff --name-only | xargs -n1 dirname | sort -u | sed 's#^#./#' | tr '\n' ' ')
echo "== existing tests of $pk"; go test -vet=off -count=1 $pk > /tmp/mut/confirm-$N.tests 2>&1; r3=$?; sed "s/\x1b\[[0-9;]*m//g" /tmp/mut/confirm-$N.tests | grep -a "\[FAIL\]\|^ok\|^FAIL\|^---" | head; if [ $r3 -ne 0 ] && [ $(sed "s/\x1b\[[0-9;]*m//g" /tmp/mut/confirm-$N.tests | grep -a "\[FAIL\]" | grep -v "same pace" | wc -l) -eq 0 ]; then echo "only the timing-flaky pace spec failed: rerun"; go test -vet=off -count=1 $pk > /tmp/mut/confirm-$N.tests 2>&1; r3=$?; fi
echo "RESULT demo_without=$r1 build=$rb demo_with=$r2 tests=$r3"
cd /; git -C /repo worktree remove --force $WT
