#!/usr/bin/env python3
"""Regenerate MANIFEST.json from bin/vprops.py (claimed checks) and the not-applicable table below."""
import json, os, subprocess, sys
VERIF = os.path.dirname(os.path.dirname(os.path.abspath(__file__)))
sys.path.insert(0, os.path.join(VERIF, "bin"))
from vprops import PROPS, NOT_CLAIMED  # noqa

hook_commits = subprocess.run(["git", "-C", "/repo", "log", "--format=%H %s"], capture_output=True, text=True).stdout.splitlines()
hook_commits = [l.split()[0] for l in hook_commits if "verif-tagged" in l or "verif-scheduled" in l]

checks = []
for pid in sorted(PROPS):
    c = PROPS[pid]
    checks.append({
        "property_id": pid,
        "quick_cmd": "bin/check %s --tier quick" % pid,
        "thorough_cmd": "bin/check %s --tier thorough" % pid,
        "evidence_file": "/verif/evidence/%s.json" % pid,
        "replay_cmd_template": "bin/check %s --replay {path}" % pid,
        "engine": "dhsim",
        "level_claimed": {"category": c["level"], "text": c["level_text"], "design_ref": c.get("design_ref", "DESIGN.md section 9")},
        "level_note": c["level_note"],
        "technique": c["technique"],
    })
m = {
    "version": 1,
    "setup_cmd": "bin/setup.sh",
    "hooks": {
        "guard": "verif",
        "enable": "cd /repo && GOFLAGS=-mod=mod GOPROXY=off GOSUMDB=off GOTOOLCHAIN=local /opt/veriftools/go1.26.8/bin/go test -c -tags verif -modfile=/verif/build/go.mod -overlay /verif/build/overlay.json -o /verif/build/dhsim.test ./internal/verifsim/  (done by bin/vbuild.py on every check)",
        "baseline_off_cmd": "bin/baseline_off.sh",
        "source_commits": hook_commits,
        "add_only": True,
    },
    "engines": [{
        "name": "dhsim", "path": "/verif/harness/sim",
        "serves_properties": sorted(PROPS),
        "kind_free_text": "deterministic simulation: the real hub (badger, store, datasets, jobs, web, security) runs in one process inside a Go 1.26 testing/synctest bubble (fake clock); scenarios (operations, schedules, faults, crashes) are generated from a seed, executed, checked by reference-model / differential oracles, minimised and replayed by bin/check",
    }],
    "checks": checks,
    "not_applicable": [{"property_id": k, "reason": v} for k, v in sorted(NOT_CLAIMED.items()) if k not in PROPS],
    "notes": "All checks rebuild the worker from /repo's working tree (build tag verif, overlay adds the harness and shims). Known findings: known_findings.json. Exit 2 = harness/build trouble.",
}
json.dump(m, open(os.path.join(VERIF, "MANIFEST.json"), "w"), indent=1)
print("checks:", len(checks), "not claimed:", len(m["not_applicable"]))
