"""Per-property check configuration: which scenario profiles run, how many per tier."""

REAL_STORE = ["badger v4.2.0 on real files (tmpfs)", "internal/server store, datasets, dataset manager, namespace manager"]
STUB_STORE = ["wall clock (testing/synctest fake clock)", "Go map iteration order (pinned by runtime overlay)", "statsd (NoOpClient)", "logger (nop)", "event bus (NoOpBus)"]

SIM = "seeded deterministic simulation (synctest fake clock, scenario = explicit op/fault list)"

PROPS = {
    "C01": {
        "level": "exploration",
        "level_text": "seeded exploration of write histories against a reference model of the entity layer; every listing, scoped and merged lookup is compared after every write and after clean restarts. Sampling, not proof: the right level for a property quantified over all histories and content pairs.",
        "level_note": "trusts badger and the Go runtime; reference model (harness/sim/model.go) encodes the property text; merged lookups compared as multisets; no null values generated",
        "technique": SIM + "; refinement against reference model, restarts as fault",
        "profiles": [{"name": "C01", "quick": 1200, "thorough": 40000}],
        "chunk": 25, "timeout": 180,
        "rule": "scenarios are generated from seed (VERIF_SEED*1e7+index) by the C01 profile: histories of batches/transactions over 1-3 datasets and an id pool of 2-6 with swarm-varied weights for identical rewrites, equal-serialised-length adversaries, delete/un-delete flips, in-batch repeats and clean restarts; after every write the listing (one call and pages 1,2,3), every scoped lookup and every merged lookup over all dataset subsets is compared with the reference model. non-trivial = at least 2 committed writes; distinct = distinct hash of the normalised event trace (op kinds and stored/dropped counts)",
        "real": REAL_STORE, "stub": STUB_STORE,
        "assumptions": ["clock advances >= 1 ns between operations", "entity contents are JSON values without null", "merge of partials is compared as a multiset per key"],
    },
    "C02": {
        "level": "exploration",
        "level_text": "seeded exploration of write histories interleaved with token-carrying readers; the feed, latest-only feed, end-token behaviour and every reader page are compared with the model's ordered version list, also across clean restarts.",
        "level_note": "trusts badger and the Go runtime; page sizes are not constrained (only the concatenation of pages is, as the property states)",
        "technique": SIM + "; refinement against ordered-log reference model",
        "profiles": [{"name": "C02", "quick": 1000, "thorough": 30000}, {"name": "C02c", "quick": 1000, "thorough": 30000}],
        "chunk": 25, "timeout": 180,
        "rule": "C02 profile: write histories (in-batch repeats, identical rewrites) interleaved with 1-3 token-carrying readers (full and latest-only, limits 0,1,2,3,5), clean restarts; after every write the full feed, latest-only feed, end-token behaviour and pagings with limits 1,2,3 are compared with the model's version list; every reader page is compared with the model slice at its position. C02c profile: 2-3 concurrent writer tasks and 1-2 token-carrying reader tasks under the cooperative scheduler; every page is checked against the feed formed by the commits that precede the read (commit order observed at the afterDataCommit hooks). non-trivial = at least 2 committed writes; distinct = distinct normalised event trace hash",
        "real": REAL_STORE, "stub": STUB_STORE,
        "assumptions": ["clock advances >= 1 ns between operations"],
    },
    "C03": {
        "level": "exploration",
        "level_text": "seeded exploration of reference-heavy histories; every (start, predicate|*, direction, dataset-subset) query, unpaged and paged, is compared with the graph implied by the model's latest versions.",
        "level_note": "one open known finding (KF-C03-1, inverse scan) is stepped over for incoming queries whose referencing entity used >= 2 (predicate, dataset) combinations towards the target; all other mismatches are reported",
        "technique": SIM + "; refinement against graph reference model",
        "profiles": [{"name": "C03", "quick": 800, "thorough": 25000}],
        "chunk": 20, "timeout": 240,
        "rule": "C03 profile: reference-heavy write histories; after writes every (start, predicate|*, direction, dataset-subset scope) query is compared with the graph implied by the model's latest versions, unpaged and paged with limits 1,2 following continuations. non-trivial = at least 2 committed writes; distinct = distinct normalised event trace hash",
        "real": REAL_STORE, "stub": STUB_STORE,
        "assumptions": ["clock advances >= 1 ns between operations"],
    },
    "C05": {
        "level": "exploration",
        "level_text": "seeded search over interleavings: 2-4 writer tasks (batches, multi-dataset transactions naming datasets in different orders), reader tasks and a dataset-manager task run under a cooperative scheduler that decides every context switch at the verif hook points (lock acquire, commit boundaries, per-entity loop); deadlock is a scheduler state, serialisability and atomic visibility are checked by replaying the committed writes in observed commit order through the reference model.",
        "level_note": "interleavings are explored at hook-point granularity only (code between two hooks runs atomically); datasets the manager task creates/deletes/renames are excluded from the equality comparison; Go runtime scheduling of goroutines blocked outside hooks is not controlled",
        "technique": SIM + "; cooperative seeded scheduler over lock/commit hook points, wait-for-graph deadlock detection, serial replay in witness commit order",
        "profiles": [{"name": "C05", "quick": 2000, "thorough": 60000}],
        "chunk": 40, "timeout": 180,
        "rule": "C05 profile: generated task sets (writers, readers, manager) with a PRNG-drawn schedule (preemption probability swarm-varied 2-50%) recorded into the scenario; non-trivial = at least 2 commits and at least 1 preemption between tasks; distinct = distinct hash of the scheduler event trace (task, hook point, lock)",
        "real": REAL_STORE, "stub": STUB_STORE + ["goroutine scheduling at hook points (cooperative scheduler)"],
        "assumptions": ["context switches happen only at verif hook points", "commit order = order of the afterDataCommit hook events"],
    },
    "C04": {
        "level": "fault_enumeration",
        "level_text": "for every generated write history (batches, multi-dataset transactions, transactions through a contextual store as JS transforms issue them) the crash space is enumerated: a directory snapshot at armed (hook point, hit) pairs or at every hook arrival, WAL-prefix crashes at operation boundaries, boundary-1 and interior byte offsets, and injected id/data commit errors. Every crash state is reopened and must equal the acknowledged history or that plus the whole in-flight operation, pass a raw scan of all key families for cross-consistency, and accept new writes with fresh change positions and internal ids.",
        "level_note": "crash = the bytes written to the store files at that instant (process death, not power loss; badger runs with SyncWrites=false as shipped); WAL-prefix crashes assume no memtable flush during the run (checked, else skipped and counted); I/O errors inside badger cannot be injected (mmap)",
        "technique": SIM + "; crash-point and WAL-byte fault enumeration per history, differential against reference model, raw key-family scan",
        "profiles": [{"name": "C04", "quick": 260, "thorough": 8000}],
        "chunk": 4, "timeout": 300,
        "rule": "C04 profile: histories of 2-7 write ops; per history up to 14 named-point snapshots (armed (point,hit) pairs, or every arrival in 15% of runs) plus WAL cuts (boundary, boundary-1, 0-2 interior offsets per op) plus 0-1 injected commit error. non-trivial = at least one crash state reopened and verified and at least one commit; distinct = distinct normalised event trace hash; crash states verified are counted in stats_total.crash_states_verified",
        "real": REAL_STORE, "stub": STUB_STORE + ["process death (directory snapshot / WAL tail zeroing instead of SIGKILL)"],
        "assumptions": ["process crash model: what was written to the mmap'd files survives", "no badger memtable flush within a run (verified per run)"],
    },
    "C07": {
        "level": "exploration",
        "level_text": "seeded histories mixing writes to datasets that share ids and references with delete / rename / re-create, garbage collection and clean restarts; after every management operation every read API on every dataset and unscoped is compared with a reference model in which a deleted dataset never existed, and after GC a raw key scan must find nothing of the deleted dataset. Crash points inside create / rename / delete / GC (directory snapshots at hook points, WAL-prefix cuts inside the operations) are enumerated per history and every crash state must equal the state before or after the operation.",
        "level_note": "crash model as for C04; the core.Dataset meta-entities are C19's subject and are not compared here",
        "technique": SIM + "; reference-model refinement with 'never existed' semantics, crash-point / WAL-byte enumeration inside management ops, raw key scan after GC",
        "profiles": [{"name": "C07", "quick": 300, "thorough": 9000}],
        "chunk": 4, "timeout": 300,
        "rule": "C07 profile: 4-14 ops over datasets dsA-dsD (writes 44%, delete 18%, create 12%, rename 10%, gc 10%, restart 6%), up to 14 named-point snapshots and 2-4 WAL cuts per management op. non-trivial = at least one management op and one commit; distinct = distinct normalised event trace hash",
        "real": REAL_STORE + ["internal/server garbage collector"], "stub": STUB_STORE + ["process death (directory snapshot / WAL tail zeroing instead of SIGKILL)"],
        "assumptions": ["process crash model: what was written to the mmap'd files survives", "a lookup scoped to a deleted dataset name may fall back to other datasets; only data of the deleted dataset must stay hidden"],
    },
}

# properties without a registered check yet, with the reason (kept current by hand)
NOT_CLAIMED = {
    "C01": "check not built yet (planned, see DESIGN.md section 9)",
    "C02": "check not built yet (planned, see DESIGN.md section 9)",
    "C03": "check not built yet (planned, see DESIGN.md section 9)",
    "C04": "check not built yet (planned, see DESIGN.md section 9)",
    "C05": "check not built yet (planned, see DESIGN.md section 9)",
    "C06": "check not built yet (planned, see DESIGN.md section 9)",
    "C07": "check not built yet (planned, see DESIGN.md section 9)",
    "C08": "check not built yet (planned, see DESIGN.md section 9)",
    "C09": "check not built yet (planned, see DESIGN.md section 9)",
    "C10": "check not built yet (planned, see DESIGN.md section 9)",
    "C11": "check not built yet (planned, see DESIGN.md section 9)",
    "C12": "check not built yet (planned, see DESIGN.md section 9)",
    "C13": "check not built yet (planned, see DESIGN.md section 9)",
    "C14": "check not built yet (planned, see DESIGN.md section 9)",
    "C15": "check not built yet (planned, see DESIGN.md section 9)",
    "C16": "check not built yet (planned, see DESIGN.md section 9)",
    "C17": "check not built yet (planned, see DESIGN.md section 9)",
    "C18": "check not built yet (planned, see DESIGN.md section 9)",
    "C19": "check not built yet (planned, see DESIGN.md section 9)",
    "C20": "check not built yet (planned, see DESIGN.md section 9)",
}
