#!/usr/bin/env python3
"""Build the simulation worker (dhsim.test) from /repo's current working tree plus the
harness files in /verif/harness, using go1.26.8, the build tag `verif`, a private copy of
go.mod/go.sum and a build overlay (harness package, per-package shims, two patched
runtime files).  /repo itself is never written to."""
import json, os, subprocess, sys, shutil, time, hashlib

VERIF = os.path.dirname(os.path.dirname(os.path.abspath(__file__)))
REPO = os.environ.get("VERIF_REPO", "/repo")
BUILD = os.environ.get("VERIF_BUILD") or os.path.join(VERIF, "build")  # VERIF_REPO / VERIF_BUILD: trial builds of scratch worktrees (tools/tryseed_wt.sh)
GOROOT = "/opt/veriftools/go1.26.8"
GO = os.path.join(GOROOT, "bin", "go")


def goenv():
    env = dict(os.environ)
    env.update({
        "GOFLAGS": "-mod=mod", "GOPROXY": "off", "GOSUMDB": "off", "GOTOOLCHAIN": "local",
        "GOROOT": GOROOT, "PATH": os.path.join(GOROOT, "bin") + ":" + env.get("PATH", ""),
        "GOCACHE": os.environ.get("VERIF_GOCACHE", os.path.join(BUILD, "gocache")),
        "CGO_ENABLED": "0",
    })
    return env


def make_overlay():
    os.makedirs(BUILD, exist_ok=True)
    ov = {}
    # harness package
    simdir = os.path.join(VERIF, "harness", "sim")
    for f in sorted(os.listdir(simdir)):
        if f.endswith(".go"):
            ov[os.path.join(REPO, "internal", "verifsim", f)] = os.path.join(simdir, f)
    # shims: harness/shims/<pkg path with __ for />/file.go
    shimroot = os.path.join(VERIF, "harness", "shims")
    for pkg in sorted(os.listdir(shimroot)):
        pdir = os.path.join(shimroot, pkg)
        if not os.path.isdir(pdir):
            continue
        target = os.path.join(REPO, "internal", *pkg.split("__"))
        for f in sorted(os.listdir(pdir)):
            if f.endswith(".go"):
                ov[os.path.join(target, f)] = os.path.join(pdir, f)
    # patched runtime
    gp = os.path.join(BUILD, "goroot_ov")
    r = subprocess.run([sys.executable, os.path.join(VERIF, "harness", "goroot", "patch.py"), GOROOT, gp],
                       capture_output=True, text=True)
    if r.returncode != 0:
        raise SystemExit("runtime patch failed: " + r.stdout + r.stderr)
    ov[os.path.join(GOROOT, "src", "runtime", "rand.go")] = os.path.join(gp, "rand.go")
    ov[os.path.join(GOROOT, "src", "runtime", "alg.go")] = os.path.join(gp, "alg.go")
    path = os.path.join(BUILD, "overlay.json")
    with open(path, "w") as fh:
        json.dump({"Replace": ov}, fh, indent=1)
    return path


def build(verbose=False):
    """Returns path of the worker binary. Raises SystemExit(2) on build failure."""
    t0 = time.time()
    ov = make_overlay()
    for f in ("go.mod", "go.sum"):
        shutil.copyfile(os.path.join(REPO, f), os.path.join(BUILD, f))
    out = os.path.join(BUILD, "dhsim.test")
    cmd = [GO, "test", "-c", "-tags", "verif", "-vet=off", "-modfile=" + os.path.join(BUILD, "go.mod"),
           "-overlay", ov, "-o", out, "./internal/verifsim/"]
    r = subprocess.run(cmd, cwd=REPO, env=goenv(), capture_output=True, text=True)
    if r.returncode != 0:
        sys.stderr.write("BUILD FAILED\n" + r.stdout + r.stderr + "\n")
        raise SystemExit(2)
    if verbose:
        sys.stderr.write("build ok in %.1fs\n" % (time.time() - t0))
    return out


if __name__ == "__main__":
    print(build(verbose=True))
