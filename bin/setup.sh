#!/bin/bash
# Build the simulation worker once (warms the go build cache) and sanity-check it.
set -e
cd "$(dirname "$0")/.."
python3 bin/vbuild.py
VERIF_MAKE_FIXTURES=1 ./build/dhsim.test -test.run '^TestFixture$' > /dev/null
test -s build/fixtures/node_key.pub
echo '{"id":0,"profile":"C01","seed":1,"tier":"quick"}' > build/smoke.jsonl
VERIF_JOBS=build/smoke.jsonl ./build/dhsim.test -test.run '^TestWorker$' | grep -q '"verdict":"ok"' && echo "setup ok"
