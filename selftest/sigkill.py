#!/usr/bin/env python3
"""Cross-check of the crash model against real SIGKILLs. usage: sigkill.py [--n N]
A victim process (TestKillVictim) writes and acknowledges operations on the real clock; it is killed with SIGKILL
after a random delay; an inspector process (TestKillInspect) applies the crash oracles of C04 to what the files
hold. Prints one line per kill and a summary; exit 1 if any kill leaves a state the oracles reject."""
import os, random, shutil, signal, subprocess, sys, tempfile, time
VERIF = os.path.dirname(os.path.dirname(os.path.abspath(__file__)))
sys.path.insert(0, os.path.join(VERIF, "bin"))
import vbuild

def main():
    n = 40
    if "--n" in sys.argv:
        n = int(sys.argv[sys.argv.index("--n") + 1])
    binary = vbuild.build()
    rnd = random.Random(int(os.environ.get("VERIF_SEED", "1")))
    bad = survived = 0
    acks = []
    for k in range(n):
        d = tempfile.mkdtemp(prefix="sigkill-", dir="/dev/shm")
        env = dict(os.environ, VERIF_VICTIM_DIR=d, VERIF_SCRATCH="/dev/shm")
        p = subprocess.Popen([binary, "-test.run", "^TestKillVictim$", "-test.timeout", "0"], env=env, stdout=subprocess.PIPE, stderr=subprocess.DEVNULL, text=True)
        # wait for READY, then kill after a random delay
        line = p.stdout.readline()
        while line and not line.startswith("READY"):
            line = p.stdout.readline()
        time.sleep(rnd.uniform(0.005, 0.25))
        p.send_signal(signal.SIGKILL)
        out = p.stdout.read()
        p.wait()
        acked = -1
        for l in out.splitlines():
            if l.startswith("ACK "):
                acked = max(acked, int(l.split()[1]))
        env = dict(os.environ, VERIF_INSPECT_DIR=d, VERIF_ACKED=str(acked + 1), VERIF_SCRATCH="/dev/shm")
        r = subprocess.run([binary, "-test.run", "^TestKillInspect$", "-test.timeout", "120s"], env=env, capture_output=True, text=True)
        res = [l for l in r.stdout.splitlines() if l.startswith("INSPECT")]
        verdict = res[0] if res else "INSPECT error: " + (r.stdout + r.stderr)[-400:]
        print("kill %d: %d operations acknowledged; %s" % (k, acked + 1, verdict[:400]))
        acks.append(acked + 1)
        if "ok" not in verdict.split()[:2]:
            bad += 1
        if "inflight_survived=true" in verdict:
            survived += 1
        shutil.rmtree(d, ignore_errors=True)
    print("sigkill cross-check: %d kills, %d rejected by the crash oracles, in-flight operation present after %d kills, acknowledged operations per kill %d..%d" % (n, bad, survived, min(acks), max(acks)))
    sys.exit(1 if bad else 0)
main()
