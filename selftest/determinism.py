#!/usr/bin/env python3
"""Determinism self-test: the same (profile, seed) must give byte-identical verdict lines
(verdict, signature, trace hash, step count, simulated time, stats) in every process and at
every GOMAXPROCS. usage: determinism.py [profiles...] [--seeds N] [--reps R]"""
import json, os, subprocess, sys, tempfile, concurrent.futures as cf
VERIF = os.path.dirname(os.path.dirname(os.path.abspath(__file__)))
sys.path.insert(0, os.path.join(VERIF, "bin"))
import vbuild
from vprops import PROPS

def run(binary, jobs, gmp):
    fd, path = tempfile.mkstemp(suffix=".jsonl", dir="/dev/shm")
    with os.fdopen(fd, "w") as fh:
        for j in jobs:
            fh.write(json.dumps(j) + "\n")
    env = dict(os.environ, VERIF_JOBS=path, GOMAXPROCS=str(gmp))
    r = subprocess.run([binary, "-test.run", "^TestWorker$", "-test.timeout", "0"], env=env, capture_output=True, text=True, timeout=600)
    os.unlink(path)
    out = {}
    for l in r.stdout.splitlines():
        if l.startswith("VERDICT "):
            v = json.loads(l[8:])
            v.pop("scenario", None)
            out[v["job"]] = json.dumps(v, sort_keys=True)
    return out

def main():
    args = sys.argv[1:]
    seeds, reps = 40, 3
    profs = []
    i = 0
    while i < len(args):
        if args[i] == "--seeds": seeds = int(args[i+1]); i += 2
        elif args[i] == "--reps": reps = int(args[i+1]); i += 2
        else: profs.append(args[i]); i += 1
    if not profs:
        profs = sorted({p["name"] for c in PROPS.values() for p in c["profiles"]})
    binary = vbuild.build()
    bad = 0
    for prof in profs:
        jobs = [{"id": k, "profile": prof, "seed": 777000 + k, "tier": "quick"} for k in range(seeds)]
        runs = []
        with cf.ThreadPoolExecutor(max_workers=9) as ex:
            futs = [ex.submit(run, binary, jobs, g) for g in (1, 4, 16) for _ in range(reps)]
            runs = [f.result() for f in futs]
        ref = runs[0]
        diffs = 0
        for r in runs[1:]:
            for k in ref:
                if r.get(k) != ref[k]:
                    diffs += 1
                    if diffs <= 3:
                        print("DIFF", prof, "job", k, "\n ", ref[k][:400], "\n ", (r.get(k) or "<missing>")[:400])
        print("%s: %d seeds x %d processes (GOMAXPROCS 1/4/16): %d differing verdict lines" % (prof, seeds, len(runs), diffs))
        bad += diffs
    sys.exit(2 if bad else 0)
main()
